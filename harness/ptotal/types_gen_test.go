package ptotal

import (
	"fmt"
	"reflect"
	"strings"

	"pgregory.net/rapid"

	"verifharness/internal/shape"
)

// ---- leaf vocabulary of the type side ----------------------------------------

// leafSpec is one leaf type expression with its sampling weight, its class and
// the genuine-defect key it is known to trigger per source family ("" = none).
type leafSpec struct {
	expr     string
	w        int
	class    string // label class
	envKey   string // key triggered through the env source (parse.String path)
	flagKey  string // key triggered through the std flag source
	pflagKey string // key triggered through the pflag source
	decKey   string // key triggered through the decoders and the bare mangler chains
}

var leafCatalog = []leafSpec{
	// named scalars
	{"Level", 4, "named-scalar", keyNamedScalar, "", "", ""},
	{"Count", 4, "named-scalar", keyNamedScalar, "", "", ""},
	{"Ratio", 3, "named-scalar", keyNamedScalar, "", "", ""},
	{"Flag", 3, "named-scalar", keyNamedScalar, "", "", ""},
	{"Name", 4, "named-scalar", keyNamedScalar, "", "", ""},
	{"Timeout", 3, "named-scalar", keyNamedScalar, "", "", ""},
	{"Color", 3, "named-scalar", keyNamedScalar, "", "", ""},
	{"Phase", 2, "named-scalar", keyNamedScalar, keyFlagNamedComplex, "", ""},
	{"Tiny", 2, "named-scalar", keyNamedScalar, "", "", ""},
	{"Big", 2, "named-scalar", keyNamedScalar, "", "", ""},
	// named collections
	{"Names", 4, "named-collection", "", "", "", ""},
	{"Nums", 4, "named-collection", "", "", "", ""},
	{"Limits", 4, "named-collection", "", "", "", ""},
	{"Labels", 4, "named-collection", "", "", "", ""},
	{"TagSet", 3, "named-collection", "", "", "", ""},
	{"NameLists", 3, "named-collection", "", "", "", ""},
	// collections of named elements / keys
	{"[]Count", 3, "named-elem", keyNamedElem, "", "", ""},
	{"[]Level", 2, "named-elem", keyNamedElem, "", "", ""},
	{"[]Name", 3, "named-elem", keyNamedElem, "", "", ""},
	{"[]Ratio", 2, "named-elem", keyNamedElem, "", "", ""},
	{"[]Flag", 2, "named-elem", keyNamedElem, "", "", ""},
	{"[]Timeout", 2, "named-elem", keyNamedElem, "", "", ""},
	{"map[string]Level", 3, "named-elem", keyNamedElem, "", "", ""},
	{"map[string]Count", 2, "named-elem", keyNamedElem, "", "", ""},
	{"map[string]Name", 2, "named-elem", keyNamedElem, "", "", ""},
	{"map[string]Ratio", 2, "named-elem", keyNamedElem, "", "", ""},
	{"map[Name]string", 2, "named-elem", keyNamedElem, "", "", ""},
	{"map[Name]Level", 2, "named-elem", keyNamedElem, "", "", ""},
	{"ByName", 2, "named-elem", keyNamedElem, "", "", ""},
	// user-declared pointers to scalars
	{"*Level", 3, "user-pointer", keyNamedScalar, "", "", ""},
	{"*Name", 3, "user-pointer", keyNamedScalar, "", "", ""},
	{"*Count", 2, "user-pointer", keyNamedScalar, "", "", ""},
	{"*Flag", 2, "user-pointer", keyNamedScalar, "", "", ""},
	{"*int", 2, "user-pointer", "", "", "", ""},
	{"*string", 2, "user-pointer", "", "", "", ""},
	{"*time.Duration", 2, "user-pointer", "", "", "", ""},
	// user-declared pointers to collections
	{"*Names", 2, "ptr-collection", keyPtrCollection, "", "", ""},
	{"*Limits", 2, "ptr-collection", keyPtrCollection, "", "", ""},
	{"*[]string", 2, "ptr-collection", keyPtrCollection, "", "", ""},
	{"*map[string]string", 2, "ptr-collection", keyPtrCollection, "", "", ""},
	{"*[]Count", 1, "ptr-collection", keyNamedElem, "", "", ""},
	// pointers to pointers
	{"**Count", 2, "double-pointer", "", keyFlagDoublePtr, keyPflagDoublePtr, ""},
	{"**int", 2, "double-pointer", "", keyFlagDoublePtr, "", ""},
	// a pointer to a pointer to a struct
	{expr: "**Pt", w: 2, class: "double-pointer", envKey: keyPtrPtrStruct, flagKey: keyPtrPtrStruct, pflagKey: keyPtrPtrStruct},
	{expr: "**Phase", w: 1, class: "double-pointer", envKey: "", flagKey: keyFlagNamedComplex},
	// collections of collections
	{"[][]string", 2, "nested-collection", keyNestedCollection, "", "", ""},
	{"[]Names", 2, "nested-collection", keyNestedCollection, "", "", ""},
	{"[]map[string]int", 1, "nested-collection", keyNestedCollection, "", "", ""},
	{"[]Limits", 1, "nested-collection", keyNestedCollection, "", "", ""},
	// text-unmarshalable leaves
	{"Stamp", 2, "text-leaf", "", "", "", ""},
	{"*Stamp", 1, "text-leaf", "", "", "", ""},
	{"time.Time", 1, "text-leaf", "", "", "", ""},
	{"net.IP", 2, "text-leaf", "", keyFlagTextSlice, "", ""},
	// uintptr-kind leaves: accepted by the flag sources and the decoders, NOT by
	// the string-casting path (env must answer a well-formed number with an error)
	{expr: "uintptr", w: 2, class: "uintptr-kind"},
	{expr: "Handle", w: 2, class: "uintptr-kind"},
	{expr: "*uintptr", w: 1, class: "uintptr-kind"},
	{expr: "*Handle", w: 1, class: "uintptr-kind"},
	{expr: "[]uintptr", w: 2, class: "uintptr-kind"},
	{expr: "[]Handle", w: 1, class: "uintptr-kind"},
	{expr: "map[string]uintptr", w: 2, class: "uintptr-kind"},
	{expr: "map[string]Handle", w: 1, class: "uintptr-kind"},
	{expr: "map[uintptr]string", w: 1, class: "uintptr-kind", decKey: keyTomlMapKey},
	{expr: "map[Handle]int", w: 1, class: "uintptr-kind", decKey: keyTomlMapKey},
	// predeclared types for contrast
	{"int", 2, "predeclared", "", "", "", ""},
	{"string", 2, "predeclared", "", "", "", ""},
	{"bool", 1, "predeclared", "", "", "", ""},
	{"float64", 1, "predeclared", "", "", "", ""},
	{"uint8", 1, "predeclared", "", "", "", ""},
	{"complex128", 1, "predeclared", "", "", "", ""},
	{"time.Duration", 2, "predeclared", "", "", "", ""},
	{"[]string", 2, "predeclared", "", "", "", ""},
	{"[]int", 1, "predeclared", "", "", "", ""},
	{"map[string]string", 1, "predeclared", "", "", "", ""},
	{"map[string]int", 1, "predeclared", "", "", "", ""},
	{"map[string][]string", 1, "predeclared", "", "", "", ""},
	{"map[string]struct{}", 1, "predeclared", "", "", "", ""},
}

// extra leaves only the decoders and manglers can hold
var structuredLeaves = []leafSpec{
	{"[2]Level", 2, "named-elem", "", "", "", ""},
	{"[3]Name", 1, "named-elem", "", "", "", ""},
	{"[]Pt", 2, "struct-elem", "", "", "", ""},
	{"map[string]Pt", 2, "struct-elem", "", "", "", ""},
	{"[]Stamp", 1, "text-leaf", "", "", "", ""},
	{"map[string]Timeout", 1, "named-elem", "", "", "", ""},
	{"[]time.Duration", 1, "predeclared", "", "", "", ""},
	{"map[string]time.Duration", 1, "predeclared", "", "", "", ""},
	// containers whose elements are pointers: valid input may hold nil elements
	{"[]*time.Duration", 5, "ptr-elem", "", "", "", ""},
	{"map[string]*time.Duration", 4, "ptr-elem", "", "", "", ""},
	{"[2]*time.Duration", 3, "ptr-elem", "", "", "", ""},
	{"*[]time.Duration", 2, "ptr-collection", "", "", "", ""},
	{"*[]*time.Duration", 1, "ptr-elem", "", "", "", ""},
	{"**time.Duration", 1, "double-pointer", "", "", "", ""},
	{"map[string][]*time.Duration", 1, "ptr-elem", "", "", "", ""},
	{"[]*int", 2, "ptr-elem", "", "", "", ""},
	{"map[string]*string", 2, "ptr-elem", "", "", "", ""},
	{"[]*Level", 2, "ptr-elem", "", "", "", ""},
	{"map[string]*Name", 1, "ptr-elem", "", "", "", ""},
	{"map[string]*Timeout", 1, "ptr-elem", "", "", "", ""},
	{"[]*Stamp", 1, "ptr-elem", "", "", "", ""},
	{"[]DurRec", 2, "struct-elem", "", "", "", ""},
	{"map[string]DurRec", 1, "struct-elem", "", "", "", ""},
	{"[]*DurRec", 1, "ptr-elem", "", "", "", ""},
	{"[]Small", 2, "struct-elem", "", "", "", ""},
	{"[2]Small", 1, "struct-elem", "", "", "", ""},
	{"*Small", 1, "user-pointer", "", "", "", ""},
	{"map[string]Small", 1, "struct-elem", "", "", "", ""},
	// element structs whose fields (arrays included) carry dialsalias tags
	{expr: "[]AliasElem", w: 6, class: "alias-elem"},
	{expr: "[2]AliasElem", w: 4, class: "alias-elem"},
	{expr: "[]*AliasElem", w: 2, class: "alias-elem"},
	{expr: "map[string]AliasElem", w: 1, class: "alias-elem"},
	// element structs with an unexported field
	{expr: "[]HidRec", w: 2, class: "struct-elem", decKey: keyElemUnexported},
	{expr: "[2]HidRec", w: 1, class: "struct-elem", decKey: keyElemUnexported},
	{expr: "map[string]HidRec", w: 1, class: "struct-elem"},
}

// flagKindLeaves complete the flag / pflag grammar with every leaf type the
// two sources register a flag for (the shared catalog has only a few).
var flagKindLeaves = func() []leafSpec {
	var out []leafSpec
	for _, e := range []string{"int8", "int16", "int32", "int64", "uint", "uint16", "uint32", "uint64", "float32", "complex64",
		"[]int8", "[]int16", "[]int32", "[]int64", "[]uint", "[]uint8", "[]uint16", "[]uint32", "[]uint64", "[]int", "[]string",
		"map[string]string", "map[string][]string", "map[string]struct{}"} {
		w := 2
		if strings.HasPrefix(e, "[]") {
			w = 5
		} else if strings.HasPrefix(e, "map[") {
			w = 3
		}
		out = append(out, leafSpec{expr: e, w: w, class: "flag-kind"})
	}
	return out
}()

var leafClassOf = func() map[string]string {
	m := map[string]string{}
	for _, l := range append(append(append(append([]leafSpec{}, leafCatalog...), structuredLeaves...), flagValueLeaves...), flagKindLeaves...) {
		if _, dup := m[l.expr]; dup {
			continue
		}
		m[l.expr] = l.class
	}
	return m
}()

// embed types with the key their members trigger through env
var embedCatalog = []struct {
	name   string
	envKey string
}{
	{"EmbNamed", keyNamedScalar}, {"EmbPtr", keyNamedScalar}, {"EmbDeep", keyNamedScalar},
	{"EmbA", ""}, {"EmbB", ""},
	// embeds whose members are collections of structs (listed twice: drawn more often)
	{"EmbSlices", ""}, {"EmbSlicesTagged", ""}, {"EmbSlices", ""}, {"EmbSlicesTagged", ""},
	{"EmbAliasElems", ""},
}

func keyFor(l leafSpec, source string) string {
	if l.decKey == keyTomlMapKey && source != "toml" {
		l.decKey = "" // only the TOML decoder is affected
	}
	switch source {
	case "manglers": // the manglers test holds the string caster (the parse.String path) and the recursing manglers
		if l.decKey != "" {
			return l.decKey
		}
		return l.envKey
	case "env":
		return l.envKey
	case "flag":
		return l.flagKey
	case "pflag":
		return l.pflagKey
	case "json", "yaml", "toml", "cue":
		return l.decKey
	}
	return ""
}

// anyKnownFor reports whether some construct of the catalog is behind a known
// defect for this source.
func anyKnownFor(source string) bool {
	for _, l := range append(append([]leafSpec{}, leafCatalog...), structuredLeaves...) {
		if k := keyFor(l, source); k != "" && knownDefect(k) {
			return true
		}
	}
	return false
}

// typesProfile is the shape grammar of the type side for one source.  behind
// = leave out every construct that triggers a defect listed as known.
func typesProfile(source string, behind bool) shape.Profile {
	var leaves []string
	cat := leafCatalog
	switch source {
	case "json", "yaml", "toml", "cue", "manglers":
		cat = append(append([]leafSpec{}, leafCatalog...), structuredLeaves...)
	case "flag", "pflag":
		// user leaf types that parse their own flag text (flag.Value without
		// Get, flag.Getter, pflag.Value)
		cat = append(append(append([]leafSpec{}, leafCatalog...), flagValueLeaves...), flagKindLeaves...)
	}
	for _, l := range cat {
		if k := keyFor(l, source); behind && k != "" && knownDefect(k) {
			continue
		}
		for i := 0; i < l.w; i++ {
			leaves = append(leaves, l.expr)
		}
	}
	var embeds []string
	for _, e := range embedCatalog {
		if behind && source == "env" && e.envKey != "" && knownDefect(e.envKey) {
			continue
		}
		embeds = append(embeds, e.name)
	}
	return shape.Profile{
		LeafTypes:   leaves,
		SkipClasses: []string{"unexported", "dash", "chan", "func"},
		Nested:      []string{"struct", "pstruct", "embed", "pembed"},
		EmbedTypes:  embeds,
		MaxDepth:    2, MaxFields: 6, MinFields: 1,
		Tagger: func(t *rapid.T, f *shape.Field, depth int) {
			if f.Kind == "embed" || f.Kind == "pembed" || len(f.Words) == 0 {
				return
			}
			switch rapid.IntRange(0, 19).Draw(t, "tagkind") {
			case 0: // explicit dials name
				f.Tag = fmt.Sprintf(`dials:"%s_t"`, strings.Join(f.Words, "_"))
			case 1: // explicit name plus an alias
				f.Tag = fmt.Sprintf(`dials:"%s_t" dialsalias:"%s_old"`, strings.Join(f.Words, "_"), strings.Join(f.Words, "_"))
			case 2: // a help text
				f.Tag = `dialsdesc:"help for ` + f.Name + `"`
			}
		},
	}
}

// ---- distinct flattened names ------------------------------------------------

// flatKeys lists, for every retained leaf of the shape, the lower-cased
// concatenation of the non-embedded field names on its path: two leaves with
// the same key would get the same flattened field / flag / variable name.
func flatKeys(fs []shape.Field, prefix string, out map[string]int) {
	for _, f := range fs {
		switch f.Kind {
		case "skip":
			continue
		case "leaf":
			out[prefix+strings.ToLower(f.Name)]++
			if f.Type == "any" || f.Type == "Stringer" {
				// its default may devirtualise it into a struct: the members
				// flatten under the field's name
				embedKeys(reflect.TypeOf(IfaceImpl{}), prefix+strings.ToLower(f.Name), out)
			}
		case "struct", "pstruct":
			flatKeys(f.Fields, prefix+strings.ToLower(f.Name), out)
		case "embed", "pembed":
			t, err := shape.ParseType(f.Type)
			if err != nil {
				continue
			}
			embedKeys(t, prefix, out)
		}
	}
}

func embedKeys(t reflect.Type, prefix string, out map[string]int) {
	for i := 0; i < t.NumField(); i++ {
		sf := t.Field(i)
		if shape.Classify(sf) == shape.ClassSkip {
			continue
		}
		switch shape.Classify(sf) {
		case shape.ClassStruct:
			embedKeys(sf.Type, prefix+strings.ToLower(sf.Name), out)
		case shape.ClassPStruct:
			embedKeys(sf.Type.Elem(), prefix+strings.ToLower(sf.Name), out)
		default:
			out[prefix+strings.ToLower(sf.Name)]++
		}
	}
}

func flatCollision(s shape.Shape) string {
	m := map[string]int{}
	flatKeys(s.Fields, "", m)
	for _, k := range shape.SortedKeys(m) {
		if m[k] > 1 {
			return k
		}
	}
	return ""
}

// makeFlatDistinct renames root fields until no two leaves flatten to the same
// name (the property's precondition).  Deterministic.
func makeFlatDistinct(s shape.Shape) shape.Shape {
	for round := 0; round < 30; round++ {
		k := flatCollision(s)
		if k == "" {
			return s
		}
		// rename the first root field whose lower-cased name is a prefix of the key
		for i := range s.Fields {
			f := &s.Fields[i]
			if f.Kind == "skip" || f.Kind == "embed" || f.Kind == "pembed" {
				continue
			}
			if strings.HasPrefix(k, strings.ToLower(f.Name)) {
				f.Name += "Alt"
				f.Words = append(f.Words, "alt")
				break
			}
		}
	}
	return s
}

// ---- shape statistics for labels ---------------------------------------------

type shapeStats struct {
	classes map[string]bool
	leaves  int
}

func statsOf(fs []shape.Field, st *shapeStats) {
	for _, f := range fs {
		switch f.Kind {
		case "leaf":
			st.leaves++
			if c, ok := leafClassOf[f.Type]; ok {
				st.classes[c] = true
			}
			if strings.Contains(f.Tag, "dialsalias") {
				st.classes["alias-tag"] = true
			}
		case "struct", "pstruct":
			st.classes[f.Kind] = true
			statsOf(f.Fields, st)
		case "embed", "pembed":
			st.classes[f.Kind] = true
			st.classes["embed:"+f.Type] = true
			if f.Type == "EmbNamed" || f.Type == "EmbPtr" {
				st.classes["named-collection"] = true
			}
			if f.Type == "EmbAliasElems" {
				st.classes["alias-elem"] = true
			}
			if f.Type == "EmbSlices" || f.Type == "EmbSlicesTagged" {
				st.classes["embedded-struct-collections"] = true
			}
		case "skip":
			st.classes["skip:"+f.Skip] = true
		}
	}
}
