package pfs

import (
	"encoding/json"
	"os"
	"testing"

	"pgregory.net/rapid"

	"verifharness/internal/vrt"
)

// temporary exploration aid: census of violations
func TestXExplore(t *testing.T) {
	f, _ := os.OpenFile("/tmp/c17explore.jsonl", os.O_CREATE|os.O_APPEND|os.O_WRONLY, 0o644)
	defer f.Close()
	n, viol, disc := 0, 0, 0
	rapid.Check(t, func(rt *rapid.T) {
		c := genC17Converge(rt)
		if os.Getenv("X_LAYOUT") != "" && c.Layout != os.Getenv("X_LAYOUT") {
			return
		}
		v := vrt.SafeRun(runC17Converge, c)
		n++
		if v.Status == vrt.StatusViolation {
			viol++
			js, _ := json.Marshal(map[string]any{"key": v.Key, "msg": v.Msg, "case": c})
			f.Write(append(js, '\n'))
		}
		if v.Status == vrt.StatusDiscard {
			disc++
		}
	})
	t.Logf("ran %d, violations %d, discards %d", n, viol, disc)
}
