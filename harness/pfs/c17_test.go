// Package pfs holds the checks that need a real file system: property C17,
// "watched files: the view converges to the file's final content".
//
// Everything here runs in real time against a real temporary directory and a
// real file.WatchingSource (inotify events cannot live in a synctest bubble).
// No verdict depends on a wall-clock bound: when something has not happened at
// the deadline the harness looks at the goroutines (three dumps 300 ms apart)
// and only calls it a violation when the goroutines that could still make it
// happen are all parked; otherwise the case is discarded as "inconclusive".
package pfs

import (
	"bytes"
	"context"
	"errors"
	"fmt"
	"io"
	"os"
	"path/filepath"
	"reflect"
	"runtime"
	"sort"
	"strconv"
	"strings"
	"sync"
	"sync/atomic"
	"syscall"
	"testing"
	"time"
	"unsafe"

	"github.com/vimeo/dials"
	djson "github.com/vimeo/dials/decoders/json"
	dyaml "github.com/vimeo/dials/decoders/yaml"
	"github.com/vimeo/dials/sources/file"
	"github.com/vimeo/dials/sources/static"
	"github.com/vimeo/dials/sourcewrap"
	"pgregory.net/rapid"

	"verifharness/internal/vrt"
)

// ------------------------------------------------------------------ config

// c17Config is the small static config type; Counter makes every version of
// the file distinguishable, Keep is never present in a file.
type c17Config struct {
	Counter int    `dials:"counter"`
	Name    string `dials:"name"`
	Limit   int    `dials:"limit"`
	Keep    string `dials:"keep"`
	// Lo comes from the second watched file, Hi from the main one; Verify
	// couples them. With the defaults every stack verifies.
	Lo int `dials:"lo"`
	Hi int `dials:"hi"`
}

// Verify makes c17Config a dials.VerifiedConfig: a stack is only installed
// when lo <= hi.
func (c c17Config) Verify() error {
	if c.Lo > c.Hi {
		return fmt.Errorf("lo (%d) is above hi (%d)", c.Lo, c.Hi)
	}
	return nil
}

func c17Defaults() c17Config {
	return c17Config{Counter: -1, Name: "dflt", Limit: 100, Keep: "keep", Lo: 0, Hi: 1 << 30}
}

// C17Doc describes one valid document by construction.
type C17Doc struct {
	Counter int     `json:"counter"`
	Name    *string `json:"name,omitempty"`
	Limit   *int    `json:"limit,omitempty"`
	// Bound: "hi" in a document of the main file, "lo" in one of the second
	// file (coupled by Verify: lo <= hi).
	Bound *int `json:"bound,omitempty"`
	Style int  `json:"style"` // 0..3, formatting variant
}

// expect is the oracle: the defaults overlaid with the fields the document
// sets (known by construction, the decoders are not consulted).
func (d C17Doc) expect() c17Config { return d.over(c17Defaults()) }

// over is the stacking oracle: base overlaid with the fields the document sets.
func (d C17Doc) over(c c17Config) c17Config {
	c.Counter = d.Counter
	if d.Name != nil {
		c.Name = *d.Name
	}
	if d.Limit != nil {
		c.Limit = *d.Limit
	}
	if d.Bound != nil {
		c.Hi = *d.Bound
	}
	return c
}

func (d C17Doc) render(dec string) []byte {
	type kv struct{ k, v string }
	var kvs []kv
	kvs = append(kvs, kv{"counter", fmt.Sprint(d.Counter)})
	if d.Name != nil {
		kvs = append(kvs, kv{"name", `"` + *d.Name + `"`})
	}
	if d.Limit != nil {
		kvs = append(kvs, kv{"limit", fmt.Sprint(*d.Limit)})
	}
	if d.Bound != nil {
		kvs = append(kvs, kv{"hi", fmt.Sprint(*d.Bound)})
	}
	var b strings.Builder
	if dec == "json" {
		switch d.Style {
		case 0: // compact
			b.WriteString("{")
			for i, e := range kvs {
				if i > 0 {
					b.WriteString(",")
				}
				fmt.Fprintf(&b, `"%s":%s`, e.k, e.v)
			}
			b.WriteString("}")
		case 1: // indented
			b.WriteString("{\n")
			for i, e := range kvs {
				fmt.Fprintf(&b, `    "%s": %s`, e.k, e.v)
				if i < len(kvs)-1 {
					b.WriteString(",")
				}
				b.WriteString("\n")
			}
			b.WriteString("}\n")
		case 2: // reversed key order
			b.WriteString("{ ")
			for i := len(kvs) - 1; i >= 0; i-- {
				fmt.Fprintf(&b, `"%s" : %s`, kvs[i].k, kvs[i].v)
				if i > 0 {
					b.WriteString(" , ")
				}
			}
			b.WriteString(" }\n")
		default: // an unknown key in front
			b.WriteString(`{"zzz": [true, null], `)
			for i, e := range kvs {
				if i > 0 {
					b.WriteString(", ")
				}
				fmt.Fprintf(&b, `"%s": %s`, e.k, e.v)
			}
			b.WriteString("}")
		}
		return []byte(b.String())
	}
	switch d.Style {
	case 0: // block
		for _, e := range kvs {
			fmt.Fprintf(&b, "%s: %s\n", e.k, e.v)
		}
	case 1: // document marker and comment
		b.WriteString("---\n# c17\n")
		for _, e := range kvs {
			fmt.Fprintf(&b, "%s: %s\n", e.k, e.v)
		}
	case 2: // flow
		b.WriteString("{")
		for i, e := range kvs {
			if i > 0 {
				b.WriteString(", ")
			}
			fmt.Fprintf(&b, "%s: %s", e.k, e.v)
		}
		b.WriteString("}\n")
	default: // reversed with an unknown key
		b.WriteString("zzz: [true, ~]\n")
		for i := len(kvs) - 1; i >= 0; i-- {
			fmt.Fprintf(&b, "%s: %s\n", kvs[i].k, kvs[i].v)
		}
	}
	return []byte(b.String())
}

// A document of the SECOND watched file (listed before the main file, so
// lower in the stack): it sets keep ("k<counter>", unique per version) and,
// when the doc has one, limit - which the main file overrides when it sets
// limit too. Name and style/2 are ignored.
func c17SecondOver(d C17Doc, c c17Config) c17Config {
	c.Keep = fmt.Sprintf("k%d", d.Counter)
	if d.Limit != nil {
		c.Limit = *d.Limit
	}
	if d.Bound != nil {
		c.Lo = *d.Bound
	}
	return c
}

func c17SecondRender(d C17Doc, dec string) []byte {
	kvs := [][2]string{{"keep", fmt.Sprintf(`"k%d"`, d.Counter)}}
	if d.Limit != nil {
		kvs = append(kvs, [2]string{"limit", fmt.Sprint(*d.Limit)})
	}
	if d.Bound != nil {
		kvs = append(kvs, [2]string{"lo", fmt.Sprint(*d.Bound)})
	}
	if d.Style%2 == 1 { // reversed
		for i, j := 0, len(kvs)-1; i < j; i, j = i+1, j-1 {
			kvs[i], kvs[j] = kvs[j], kvs[i]
		}
	}
	var b strings.Builder
	if dec == "json" {
		b.WriteString("{")
		for i, e := range kvs {
			if i > 0 {
				b.WriteString(", ")
			}
			fmt.Fprintf(&b, `"%s": %s`, e[0], e[1])
		}
		b.WriteString("}\n")
		return []byte(b.String())
	}
	for _, e := range kvs {
		fmt.Fprintf(&b, "%s: %s\n", e[0], e[1])
	}
	return []byte(b.String())
}

const c17LeadKeep = "lead"

const c17BadTemplates = 4

// c17Bad renders malformed content number k (unique bytes per k, except the
// empty JSON file).
func c17Bad(dec string, tmpl, k int) []byte {
	if dec == "json" {
		switch tmpl {
		case 0:
			return []byte(fmt.Sprintf(`{"counter": %d,`, k)) // truncated
		case 1:
			return []byte(fmt.Sprintf(`{"counter": "x%d", "name": "q"}`, k)) // type error
		case 2:
			return []byte(fmt.Sprintf(`}{ %d`, k)) // garbage
		default:
			return []byte{} // empty file: io.EOF from encoding/json
		}
	}
	switch tmpl {
	case 0:
		return []byte(fmt.Sprintf("counter: [%d\n", k)) // unclosed flow sequence
	case 1:
		return []byte(fmt.Sprintf("counter: x%d\n", k)) // type error
	case 2:
		return []byte(fmt.Sprintf("counter: %d\n\tname: bad\n", k)) // tab indentation
	default:
		return []byte(fmt.Sprintf("- %d\n- counter\n", k)) // sequence where a mapping is needed
	}
}

func c17Decoder(dec string) dials.Decoder {
	if dec == "json" {
		return &djson.Decoder{}
	}
	return &dyaml.Decoder{}
}

// ------------------------------------------------------------------ cases

// C17Op is one file operation.
type C17Op struct {
	// "eloop": a symlink that points at itself is renamed over the regular
	// config file, so the path cannot be opened for a reason other than
	// "does not exist" (ELOOP, also for root); content must be "bad". The
	// next operation on the main file replaces the path wholesale (rename,
	// delrec, swap, retarget, rollback or rmdir; not identical content).
	// "other" (only with a second watched file): the SECOND file gets the
	// document Doc (content must be "new"; sub: in place instead of
	// rename-over); the main file is not touched.
	Mech    string `json:"mech"`              // inplace | rename | delrec | swap (k8s layout) | retarget (link layout) | rmdir (remove the watched directory with everything in it, wait gap_ms, build the layout again with this operation's content) | rollback (rename a file with an OLDER modification time over the config: the backup written when these bytes were current, or a fresh file whose mtime is set back to 2000-01-01)
	Content string `json:"content"`           // new | same | bad | restore (bytes of the last valid content) | revert (bytes of the valid content before the last one)
	Doc     C17Doc `json:"doc"`               // when content == new
	Bad     int    `json:"bad,omitempty"`     // malformed template, when content == bad
	GapMS   int    `json:"gap_ms,omitempty"`  // delrec: pause between delete and recreate (0/1/30); rmdir: time the directory stays away (0/60/150)
	Cleanup bool   `json:"cleanup,omitempty"` // swap: remove the previous timestamped directory afterwards (as the Kubernetes AtomicWriter does); retarget: remove the previous target
	Sub     bool   `json:"sub,omitempty"`     // retarget: the new target lives in a new subdirectory (otherwise next to the link)
	Settle  bool   `json:"settle,omitempty"`  // content == new only: wait until the view shows this document before going on
	PauseMS int    `json:"pause_ms"`          // pause after this operation, before the next one
}

// c17ReplacesPath: the operation works when the regular file has been
// replaced by something that cannot be opened.
func c17ReplacesPath(o C17Op) bool {
	switch o.Mech {
	case "rename", "delrec", "swap", "retarget", "rollback", "rmdir":
		return o.Content != "same"
	}
	return false
}

// moves: the operation makes the watched path resolve to another file in
// (possibly) another directory.
func (o C17Op) moves() bool { return o.Mech == "swap" || o.Mech == "retarget" }

// kind is the operation class of the property statement.
func (o C17Op) kind() string {
	if o.Mech == "rollback" || o.Mech == "other" || o.Mech == "eloop" {
		return o.Mech
	}
	switch o.Content {
	case "same":
		return "identical"
	case "bad":
		return "malformed"
	case "restore", "revert":
		return o.Content
	}
	return o.Mech
}

// C17Setup is the part shared by all three checks.
type C17Setup struct {
	Decoder string `json:"decoder"` // json | yaml
	Layout  string `json:"layout"`  // direct | k8s | link (the watched path is a plain symlink to the regular file) | dirlink (regular file reached through a symlinked directory: conf -> real, watched path conf/cfg.json)
	Link    string `json:"link"`    // k8s: name of the directory symlink ("..data" as Kubernetes names it, "..dir" as dials' own test names it); link: where the first target lives, "same" directory or "sub" directory
	Initial C17Doc `json:"initial"`
	// Install: "" / "direct": the WatchingSource is given to Config;
	// "blank-short": Config gets a sourcewrap.Blank, then Blank.SetSource(file
	// source) with a context of its own that is cancelled as soon as SetSource
	// has returned; "blank-long": the same with a context that outlives the
	// Dials context (cancelled only after the release checks).
	Install string `json:"install,omitempty"`
	// PollMS > 0: file.WithPollInterval(PollMS ms), the fallback poll.
	PollMS int `json:"poll_ms,omitempty"`
	// InstallOp (blank-* only): the file is rewritten while SetSource is still
	// in progress. The source handed to SetSource is a thin wrapper whose
	// Watch calls the real Watch, then performs this operation (in-place write
	// or rename-over with new valid content; every watch is in place by then),
	// waits until the view shows the new content (bounded) and returns.
	InstallOp *C17Op `json:"install_op,omitempty"`
	// Second: a second watched file (own directory, direct layout, same
	// decoder type) listed BEFORE the main one in the same Dials; this is its
	// first document (see c17SecondOver).
	Second *C17Doc `json:"second,omitempty"`
	// Lead: a sourcewrap.Blank listed first of all. Right after Config it is
	// given a static (non-watching) source that sets keep="lead"; after
	// LeadDoneAt operations of the history (at the end when there are fewer)
	// Blank.Done() is called while the file watcher(s) go on.
	Lead       bool `json:"lead,omitempty"`
	LeadDoneAt int  `json:"lead_done_at,omitempty"`
}

// counters is the set of document counters used before the first operation.
func (s C17Setup) counters() map[int]bool {
	m := map[int]bool{s.Initial.Counter: true}
	if s.InstallOp != nil {
		m[s.InstallOp.Doc.Counter] = true
	}
	if s.Second != nil {
		m[s.Second.Counter] = true
	}
	return m
}

// c17ModelAtStart is the content model after the installation.
func c17ModelAtStart(s C17Setup) c17Model {
	m := c17NewModel(s)
	if s.InstallOp != nil {
		m.step(*s.InstallOp)
	}
	return m
}

func (s C17Setup) blank() bool { return s.Install == "blank-short" || s.Install == "blank-long" }

// C17Case is a history of file operations.
type C17Case struct {
	C17Setup
	Ops []C17Op `json:"ops"`
	// Burst > 0: the last Burst (1..3) operations are applied during an
	// "overflow burst": the watcher is parked inside a decode, the inotify
	// queue of the watcher is flooded until the kernel drops events, the
	// operations run (their notifications are dropped), the watcher is let go.
	Burst int `json:"burst,omitempty"`
}

var c17Pauses = map[int]bool{0: true, 1: true, 30: true}

func c17ValidDoc(d C17Doc) error {
	if d.Style < 0 || d.Style > 3 {
		return fmt.Errorf("style %d", d.Style)
	}
	if d.Counter < 0 {
		return fmt.Errorf("counter %d", d.Counter)
	}
	if d.Name != nil {
		for _, r := range *d.Name {
			if r < 'a' || r > 'z' {
				return fmt.Errorf("name %q", *d.Name)
			}
		}
	}
	return nil
}

func (s C17Setup) validate() error {
	if s.Decoder != "json" && s.Decoder != "yaml" {
		return fmt.Errorf("decoder %q", s.Decoder)
	}
	switch s.Install {
	case "", "direct", "blank-short", "blank-long":
	default:
		return fmt.Errorf("install %q", s.Install)
	}
	if s.PollMS != 0 && (s.PollMS < 20 || s.PollMS > 50) {
		return fmt.Errorf("poll interval %d ms", s.PollMS)
	}
	if s.Second != nil {
		if err := c17ValidDoc(*s.Second); err != nil {
			return fmt.Errorf("second: %v", err)
		}
		if s.Second.Counter == s.Initial.Counter {
			return fmt.Errorf("second: counter reused")
		}
	}
	if s.LeadDoneAt < 0 || s.LeadDoneAt > 12 || (!s.Lead && s.LeadDoneAt != 0) {
		return fmt.Errorf("lead_done_at %d", s.LeadDoneAt)
	}
	if o := s.InstallOp; o != nil {
		if s.Second != nil && o.Doc.Counter == s.Second.Counter {
			return fmt.Errorf("install_op: counter reused")
		}
		if !s.blank() {
			return fmt.Errorf("install_op without a Blank install")
		}
		if (o.Mech != "inplace" && o.Mech != "rename") || o.Content != "new" || o.Settle || o.GapMS != 0 || o.PauseMS != 0 {
			return fmt.Errorf("install_op must be an in-place write or a rename-over with new content")
		}
		if err := c17ValidDoc(o.Doc); err != nil {
			return fmt.Errorf("install_op: %v", err)
		}
		if o.Doc.Counter == s.Initial.Counter {
			return fmt.Errorf("install_op: counter reused")
		}
	}
	switch s.Layout {
	case "direct":
	case "k8s":
		if s.Link != "..data" && s.Link != "..dir" {
			return fmt.Errorf("link %q", s.Link)
		}
	case "link":
		if s.Link != "same" && s.Link != "sub" {
			return fmt.Errorf("link %q", s.Link)
		}
	case "dirlink":
	default:
		return fmt.Errorf("layout %q", s.Layout)
	}
	return c17ValidDoc(s.Initial)
}

func c17ValidOps(s C17Setup, ops []C17Op, counters map[int]bool, extraPause map[int]bool) error {
	loop := false // the main path currently is a self-referential symlink
	for i, o := range ops {
		switch {
		case o.Mech == "other":
		case o.Mech == "eloop":
			if loop || o.Content != "bad" || o.GapMS != 0 {
				return fmt.Errorf("op %d: eloop needs content bad, no gap, and a regular file to replace", i)
			}
			loop = true
		case loop:
			if !c17ReplacesPath(o) {
				return fmt.Errorf("op %d: the operation after an eloop must replace the path", i)
			}
			loop = false
		}
		switch o.Mech {
		case "inplace", "rename", "delrec", "eloop":
		case "rmdir":
		case "other":
			if s.Second == nil || o.Content != "new" || o.GapMS != 0 {
				return fmt.Errorf("op %d: other needs a second file, new content and no gap", i)
			}
		case "rollback":
			if o.GapMS != 0 {
				return fmt.Errorf("op %d: rollback with a gap", i)
			}
		case "swap":
			if s.Layout != "k8s" {
				return fmt.Errorf("op %d: swap outside the k8s layout", i)
			}
		case "retarget":
			if s.Layout != "link" {
				return fmt.Errorf("op %d: retarget outside the link layout", i)
			}
		default:
			return fmt.Errorf("op %d: mech %q", i, o.Mech)
		}
		switch o.Content {
		case "new":
			if err := c17ValidDoc(o.Doc); err != nil {
				return fmt.Errorf("op %d: %v", i, err)
			}
			if counters[o.Doc.Counter] {
				return fmt.Errorf("op %d: counter %d reused", i, o.Doc.Counter)
			}
			counters[o.Doc.Counter] = true
		case "same", "restore", "revert":
			if o.Settle {
				return fmt.Errorf("op %d: settle needs new content", i)
			}
		case "bad":
			if o.Bad < 0 || o.Bad >= c17BadTemplates {
				return fmt.Errorf("op %d: bad template %d", i, o.Bad)
			}
			if o.Settle {
				return fmt.Errorf("op %d: settle needs new content", i)
			}
		default:
			return fmt.Errorf("op %d: content %q", i, o.Content)
		}
		if !c17Pauses[o.PauseMS] && !extraPause[o.PauseMS] {
			return fmt.Errorf("op %d: pause %d", i, o.PauseMS)
		}
		if o.Mech == "rmdir" {
			if o.GapMS != 0 && o.GapMS != 60 && o.GapMS != 150 {
				return fmt.Errorf("op %d: rmdir gap %d", i, o.GapMS)
			}
		} else if !c17Pauses[o.GapMS] {
			return fmt.Errorf("op %d: gap %d", i, o.GapMS)
		}
	}
	return nil
}

// ------------------------------------------------------------------ generators

func genC17Doc(t *rapid.T, counter int) C17Doc {
	d := C17Doc{Counter: counter, Style: rapid.IntRange(0, 3).Draw(t, "style")}
	if rapid.IntRange(0, 9).Draw(t, "has_name") < 7 {
		n := rapid.StringMatching(`[a-z]{0,6}`).Draw(t, "name")
		d.Name = &n
	}
	if rapid.Bool().Draw(t, "has_limit") {
		l := rapid.IntRange(0, 1000).Draw(t, "limit")
		d.Limit = &l
	}
	return d
}

func genC17Setup(t *rapid.T) C17Setup {
	s := C17Setup{
		Decoder: rapid.SampledFrom([]string{"json", "yaml"}).Draw(t, "decoder"),
		Layout:  rapid.SampledFrom([]string{"direct", "k8s", "k8s", "link", "dirlink"}).Draw(t, "layout"),
		Initial: genC17Doc(t, 1),
		Install: rapid.SampledFrom([]string{"direct", "direct", "direct", "blank-short", "blank-long"}).Draw(t, "install"),
		PollMS:  rapid.SampledFrom([]int{0, 0, 0, 0, 0, 0, 25, 40}).Draw(t, "poll_ms"),
	}
	switch s.Layout {
	case "k8s":
		s.Link = rapid.SampledFrom([]string{"..data", "..dir"}).Draw(t, "link")
	case "link":
		s.Link = rapid.SampledFrom([]string{"same", "sub"}).Draw(t, "link")
	}
	if rapid.IntRange(0, 2).Draw(t, "second") == 2 {
		d := genC17Doc(t, 700)
		s.Second = &d
	}
	if rapid.IntRange(0, 3).Draw(t, "lead") == 1 {
		s.Lead = true
		s.LeadDoneAt = rapid.IntRange(0, 6).Draw(t, "lead_done_at")
	}
	if s.blank() && rapid.Bool().Draw(t, "install_op") {
		s.InstallOp = &C17Op{
			Mech:    rapid.SampledFrom([]string{"rename", "inplace"}).Draw(t, "install_mech"),
			Content: "new",
			Doc:     genC17Doc(t, 500),
		}
	}
	return s
}

func genC17Pause(t *rapid.T) int {
	return rapid.SampledFrom([]int{0, 0, 0, 1, 1, 30}).Draw(t, "pause")
}

func genC17Mech(t *rapid.T, s C17Setup, atomicOnly, rmdirOK bool) string {
	layout := s.Layout
	if rmdirOK && !atomicOnly {
		// removing the whole directory: common when the fallback poll is on
		// (the only thing that can notice the new directory), rare otherwise
		// (nothing is promised then, only the release checks apply)
		if die := rapid.IntRange(0, 59).Draw(t, "rmdir"); (s.PollMS > 0 && die >= 48) || (s.PollMS == 0 && die == 37) {
			return "rmdir"
		}
		// the path becomes unopenable
		if rapid.IntRange(0, 11).Draw(t, "eloop") == 7 {
			return "eloop"
		}
		// the second watched file changes
		if s.Second != nil && rapid.IntRange(0, 3).Draw(t, "other") == 2 {
			return "other"
		}
		// rolling back to an older file: in every layout
		if rapid.IntRange(0, 9).Draw(t, "rollback") == 6 {
			return "rollback"
		}
	}
	switch {
	case layout == "k8s" && atomicOnly:
		return rapid.SampledFrom([]string{"swap", "swap", "rename"}).Draw(t, "mech")
	case layout == "k8s":
		return rapid.SampledFrom([]string{"swap", "swap", "swap", "inplace", "rename", "delrec"}).Draw(t, "mech")
	case layout == "link" && atomicOnly:
		return rapid.SampledFrom([]string{"retarget", "retarget", "rename"}).Draw(t, "mech")
	case layout == "link":
		return rapid.SampledFrom([]string{"retarget", "retarget", "retarget", "inplace", "rename", "delrec"}).Draw(t, "mech")
	case atomicOnly:
		return "rename"
	}
	return rapid.SampledFrom([]string{"inplace", "rename", "delrec"}).Draw(t, "mech")
}

// genC17Op draws one operation; content is "" for a free choice.
func genC17Op(t *rapid.T, s C17Setup, counter int, content string, atomicOnly, noRevert, rmdirOK bool) C17Op {
	o := C17Op{Mech: genC17Mech(t, s, atomicOnly, rmdirOK), PauseMS: genC17Pause(t)}
	free := content == ""
	if !free && content == "bad" && rmdirOK && rapid.IntRange(0, 2).Draw(t, "final_eloop") == 0 {
		o.Mech = "eloop" // a history that ends with a path that cannot be opened
	}
	if o.Mech == "eloop" {
		if free || content == "bad" {
			content = "bad"
		} else {
			o.Mech = "rename"
		}
	}
	if o.Mech == "other" {
		if free || content == "new" {
			content = "new"
			o.Sub = rapid.Bool().Draw(t, "other_inplace")
		} else {
			o.Mech = "inplace"
		}
	}
	if content == "" {
		switch k := rapid.IntRange(0, 19).Draw(t, "content"); {
		case k < 10:
			content = "new"
		case k < 13:
			content = "same"
		case k < 17:
			content = "bad"
		case k < 19 || noRevert:
			content = "restore"
		default:
			content = "revert"
		}
	}
	if o.Mech == "rollback" && free && content == "new" && !noRevert && rapid.IntRange(0, 3).Draw(t, "rollback_to") > 0 {
		// mostly roll back to bytes that were there before
		content = rapid.SampledFrom([]string{"revert", "revert", "restore"}).Draw(t, "rollback_content")
	}
	o.Content = content
	switch content {
	case "new":
		o.Doc = genC17Doc(t, counter)
		o.Settle = rapid.IntRange(0, 9).Draw(t, "settle") == 0
	case "bad":
		o.Bad = rapid.IntRange(0, c17BadTemplates-1).Draw(t, "bad")
	}
	if o.Mech == "delrec" {
		o.GapMS = genC17Pause(t)
	}
	if o.Mech == "rmdir" {
		o.GapMS = rapid.SampledFrom([]int{60, 60, 150, 0}).Draw(t, "rmdir_gap")
	}
	if o.moves() {
		o.Cleanup = rapid.Bool().Draw(t, "cleanup")
	}
	if o.Mech == "retarget" {
		o.Sub = rapid.Bool().Draw(t, "sub")
	}
	return o
}

var (
	c17KnownLinkName  = sync.OnceValue(func() bool { return vrt.IsKnown("C17", "k8s-link-name") })
	c17KnownSwapTouch = sync.OnceValue(func() bool { return vrt.IsKnown("C17", "k8s-swap-then-touch") })
	c17KnownDirWatch  = sync.OnceValue(func() bool { return vrt.IsKnown("C17", "link-dir-watch-removed") })
)

// c17AvoidKnown steers generated histories away from listed (unrepaired)
// findings so that the search goes on behind them without paying the 10 s
// deadline for every known lost update. It changes nothing when the findings
// are not listed; a known lost update that still happens is matched by key.
func c17AvoidKnown(s C17Setup, ops []*C17Op) {
	move := map[string]string{"k8s": "swap", "link": "retarget"}[s.Layout]
	inSub := s.Link == "sub"
	for i, o := range ops {
		if !o.moves() {
			continue
		}
		if o.Mech == "retarget" {
			if !inSub && o.Sub && c17KnownDirWatch() {
				// a target that leaves the link's own directory takes the
				// watch on that directory with it
				o.Sub = false
			}
			inSub = o.Sub
		}
		if s.Layout == "k8s" && s.Link != "..dir" && c17KnownLinkName() {
			// noticed only through the removal of the old directory
			o.Cleanup = true
		}
		if i+1 < len(ops) && !ops[i+1].moves() && c17KnownSwapTouch() {
			// causal barrier instead of a pause: the watch on the new
			// directory is in place before the new value is reported
			if o.Content == "new" {
				o.Settle = true
			} else {
				ops[i+1].Mech, ops[i+1].GapMS = move, 0
			}
		}
	}
}

func c17Ptrs(lists ...[]C17Op) []*C17Op {
	var out []*C17Op
	for _, l := range lists {
		for i := range l {
			out = append(out, &l[i])
		}
	}
	return out
}

func genC17Ops(t *rapid.T, s C17Setup, lo, hi int, final string, noRevert bool) []C17Op {
	n := rapid.IntRange(lo, hi).Draw(t, "nops")
	ops := make([]C17Op, n)
	for i := range ops {
		content := ""
		if i == n-1 {
			content = final
		}
		ops[i] = genC17Op(t, s, i+2, content, false, noRevert, true)
	}
	// after an eloop the next operation on the main file replaces the path
	loop := false
	for i := range ops {
		o := &ops[i]
		switch {
		case o.Mech == "other":
		case o.Mech == "eloop":
			if loop {
				o.Mech = "rename"
				loop = false
			} else {
				loop = true
			}
		case loop:
			if o.Mech == "inplace" {
				o.Mech = "rename"
			}
			if o.Content == "same" {
				o.Content = "restore"
			}
			loop = false
		}
	}
	c17AvoidKnown(s, c17Ptrs(ops))
	return ops
}

func genC17Converge(t *rapid.T) C17Case {
	s := genC17Setup(t)
	// final content: valid (new) / identical to the previous / invalid
	final := rapid.SampledFrom([]string{"new", "new", "new", "new", "new", "same", "same", "bad", "bad", "restore", "revert"}).Draw(t, "final")
	ops := genC17Ops(t, s, 1, 12, final, false)
	spare := genC17Doc(t, len(ops)+2)
	// a history that ends invalid: the last valid content must be new (see
	// the settle step in Run)
	m := c17ModelAtStart(s)
	last, lastMain, endsValid := -1, -1, true
	for i, o := range ops {
		if endsValid = m.step(o).valid; endsValid {
			last = i
			if o.Mech != "other" {
				lastMain = i
			}
		}
	}
	if !endsValid {
		if lastMain >= 0 && ops[lastMain].Content != "new" {
			ops[lastMain].Content, ops[lastMain].Doc = "new", spare
		}
		for i := last + 1; i < len(ops); i++ {
			if ops[i].Mech == "other" { // no change of the second file in the trailing invalid stretch
				ops[i] = C17Op{Mech: "rename", Content: "bad", PauseMS: ops[i].PauseMS}
			}
		}
	}
	if s.Second != nil && endsValid && rapid.Bool().Draw(t, "coupled") {
		// Verify couples the files: hi in documents of the main file, lo in
		// documents of the second one. Intermediate stacks may be rejected;
		// the initial and the final stack are made to verify.
		bound := func() *int {
			v := 10 * rapid.IntRange(1, 9).Draw(t, "bound")
			return &v
		}
		lo0, hi0 := bound(), bound()
		if *lo0 > *hi0 {
			lo0, hi0 = hi0, lo0
		}
		sec := *s.Second
		sec.Bound, s.Initial.Bound = lo0, hi0
		s.Second = &sec
		lastOther := -1
		for i := range ops {
			if ops[i].Content != "new" {
				continue
			}
			if ops[i].Mech == "other" {
				lastOther = i
			}
			if rapid.IntRange(0, 3).Draw(t, "has_bound") > 0 {
				ops[i].Doc.Bound = bound()
			}
		}
		if _, fin, _ := c17FinalStack(s, ops); fin.Verify() != nil {
			v := fin.Hi
			if lastOther >= 0 {
				ops[lastOther].Doc.Bound = &v
			} else {
				s.Second.Bound = &v // lower than before: the initial stack still verifies
			}
		}
		// Most coupled histories end with a deliberate squeeze: one file gets a
		// content that is rejected because of the other file's current value,
		// 30 ms later the other file changes so that the pair is acceptable.
		if squeeze := rapid.IntRange(0, 3).Draw(t, "squeeze"); squeeze > 0 && len(ops) <= 10 {
			_, cur, _ := c17FinalStack(s, ops)
			mainFirst := squeeze == 1
			if cur.Lo < 10 {
				mainFirst = false
			}
			if cur.Hi >= 1<<30 {
				mainFirst = true
			}
			docA, docB := genC17Doc(t, 800), genC17Doc(t, 801)
			switch {
			case mainFirst && cur.Lo >= 10:
				hi := cur.Lo - 5 // below the second file's lo: rejected
				lo := hi - rapid.IntRange(0, 1).Draw(t, "squeeze_gap")*5
				docA.Bound, docB.Bound = &hi, &lo
				ops = append(ops,
					C17Op{Mech: "rename", Content: "new", Doc: docA, PauseMS: 30},
					C17Op{Mech: "other", Content: "new", Doc: docB, Sub: rapid.Bool().Draw(t, "squeeze_inplace")})
			case !mainFirst && cur.Hi < 1<<30:
				lo := cur.Hi + 5 // above the main file's hi: rejected
				hi := lo + rapid.IntRange(0, 1).Draw(t, "squeeze_gap")*5
				docA.Bound, docB.Bound = &lo, &hi
				ops = append(ops,
					C17Op{Mech: "other", Content: "new", Doc: docA, PauseMS: 30},
					C17Op{Mech: "rename", Content: "new", Doc: docB})
			}
		}
	}
	c := C17Case{C17Setup: s, Ops: ops}
	// overflow burst: a small fixed fraction of the cases (it costs a few
	// tenths of a second)
	// (a residue of a wide draw: rapid's bias towards small values and
	// range ends would otherwise multiply the fraction)
	isBurst := rapid.IntRange(0, 1<<30).Draw(t, "burst")%16 == 11
	k := rapid.IntRange(1, 3).Draw(t, "burst_ops")
	for _, o := range ops {
		if o.Mech == "rmdir" {
			isBurst = false // the watches are gone, there is no queue to flood
		}
	}
	if s.Second != nil {
		isBurst = false // two inotify queues
	}
	if isBurst {
		if k > len(ops) {
			k = len(ops)
		}
		if !endsValid && k > len(ops)-1-last {
			// the settle step before a trailing invalid stretch cannot
			// happen while the watcher is parked
			k = len(ops) - 1 - last
		}
		for i := len(ops) - k; i < len(ops); i++ {
			ops[i].Settle = false
		}
		c.Burst = k
	}
	return c
}

// ------------------------------------------------------------------ the world

// c17Abort is panicked by the harness's own file operations when the
// environment fails (disk full, ...); Run turns it into a discard.
type c17Abort struct{ err error }

func c17Must(err error) {
	if err != nil {
		panic(c17Abort{err})
	}
}

type c17State struct {
	bytes []byte
	valid bool
	loop  bool      // the path is a self-referential symlink: it cannot be opened
	cfg   c17Config // when valid: the document over the bare defaults
	doc   C17Doc    // when valid
}

// c17Model is the pure model of the file's content.
type c17Model struct {
	dec       string
	seq       int
	cur       c17State
	lastValid c17State // most recent valid content
	prevValid c17State // the valid content before that one (other bytes)
	hasPrev   bool
}

func c17NewModel(s C17Setup) c17Model {
	st := c17State{bytes: s.Initial.render(s.Decoder), valid: true, cfg: s.Initial.expect(), doc: s.Initial}
	return c17Model{dec: s.Decoder, cur: st, lastValid: st}
}

// step returns the content operation o writes and records it.
func (m *c17Model) step(o C17Op) c17State {
	m.seq++
	if o.Mech == "other" {
		return m.cur // the main file is not touched
	}
	if o.Mech == "eloop" {
		m.cur = c17State{loop: true}
		return m.cur
	}
	next := m.cur
	switch o.Content {
	case "new":
		next = c17State{bytes: o.Doc.render(m.dec), valid: true, cfg: o.Doc.expect(), doc: o.Doc}
	case "bad":
		next = c17State{bytes: c17Bad(m.dec, o.Bad, 1000+m.seq)}
	case "restore":
		next = m.lastValid
	case "revert":
		next = m.lastValid
		if m.hasPrev {
			next = m.prevValid
		}
	}
	if next.valid && string(next.bytes) != string(m.lastValid.bytes) {
		m.prevValid, m.hasPrev = m.lastValid, true
		m.lastValid = next
	}
	m.cur = next
	return next
}

type c17World struct {
	c17Model
	s       C17Setup
	root    string
	visible string // the watched path
	real    string // the regular file behind it
	tsDir   string // k8s: current timestamped directory
	tsN     int
	realSub bool // link: the target lives in a subdirectory
	// backups: one file per content version, written when that version was
	// current, outside the watched directories (rollback renames them back)
	bakDir string
	baks   map[string]string
	bakN   int
	// second watched file (own directory)
	secDir  string
	secPath string
	secDoc  C17Doc
}

// c17OldTime is the modification time given to a fresh file that is to look
// old (no wall clock involved).
var c17OldTime = time.Unix(946684800, 0)

// watchDir is the directory that holds the regular file at the start (and
// that the watcher watches through the config path's directory).
func (w *c17World) watchDir() string {
	if w.s.Layout == "dirlink" {
		return filepath.Join(w.root, "real")
	}
	return w.root
}

// keepBackup stores the current bytes as a backup file unless there is one.
func (w *c17World) keepBackup(b []byte, mtime *time.Time) {
	if _, ok := w.baks[string(b)]; ok {
		return
	}
	w.bakN++
	p := filepath.Join(w.bakDir, fmt.Sprintf("v%d", w.bakN))
	c17Must(os.WriteFile(p, b, 0o644))
	if mtime != nil {
		c17Must(os.Chtimes(p, *mtime, *mtime))
	}
	w.baks[string(b)] = p
}

func c17NewWorld(s C17Setup) *c17World {
	root, err := os.MkdirTemp("", "verif-c17-")
	c17Must(err)
	bak, err := os.MkdirTemp("", "verif-c17bak-")
	c17Must(err)
	w := &c17World{c17Model: c17NewModel(s), s: s, root: root, bakDir: bak, baks: map[string]string{}}
	w.visible = filepath.Join(root, "cfg."+s.Decoder)
	if s.Layout == "dirlink" {
		w.visible = filepath.Join(root, "conf", "cfg."+s.Decoder)
	}
	w.build(w.cur.bytes)
	w.keepBackup(w.cur.bytes, nil)
	if s.Second != nil {
		w.secDir, err = os.MkdirTemp("", "verif-c17sec-")
		c17Must(err)
		w.secPath = filepath.Join(w.secDir, "second."+s.Decoder)
		w.secDoc = *s.Second
		c17Must(os.WriteFile(w.secPath, c17SecondRender(w.secDoc, s.Decoder), 0o644))
	}
	return w
}

// build lays the files out in the (empty) root directory with content b.
func (w *c17World) build(b []byte) {
	s, root := w.s, w.root
	fname := "cfg." + s.Decoder
	if s.Layout == "direct" {
		w.real = w.visible
		c17Must(os.WriteFile(w.real, b, 0o644))
		return
	}
	if s.Layout == "dirlink" {
		// root/real/cfg.json   regular file
		// root/conf -> real     directory symlink; the watched path is root/conf/cfg.json
		c17Must(os.Mkdir(filepath.Join(root, "real"), 0o755))
		w.real = filepath.Join(root, "real", fname)
		c17Must(os.WriteFile(w.real, b, 0o644))
		c17Must(os.Symlink("real", filepath.Join(root, "conf")))
		return
	}
	w.tsN++
	if s.Layout == "link" {
		// root/cfg.json -> real-N.json   or   root/cfg.json -> dN/real.json
		rel := fmt.Sprintf("real-%d.%s", w.tsN, s.Decoder)
		w.realSub = false
		if s.Link == "sub" {
			d := fmt.Sprintf("d%d", w.tsN)
			c17Must(os.Mkdir(filepath.Join(root, d), 0o755))
			rel = filepath.Join(d, "real."+s.Decoder)
			w.realSub = true
		}
		w.real = filepath.Join(root, rel)
		c17Must(os.WriteFile(w.real, b, 0o644))
		c17Must(os.Symlink(rel, w.visible))
		return
	}
	// Kubernetes AtomicWriter layout:
	//   root/..ts-N/cfg.json      regular file
	//   root/<link> -> ..ts-N     directory symlink
	//   root/cfg.json -> <link>/cfg.json
	name := fmt.Sprintf("..ts-%d", w.tsN)
	w.tsDir = filepath.Join(root, name)
	c17Must(os.Mkdir(w.tsDir, 0o755))
	w.real = filepath.Join(w.tsDir, fname)
	c17Must(os.WriteFile(w.real, b, 0o644))
	c17Must(os.Symlink(name, filepath.Join(root, s.Link)))
	c17Must(os.Symlink(filepath.Join(s.Link, fname), w.visible))
}

func (w *c17World) close() {
	_ = os.RemoveAll(w.root)
	_ = os.RemoveAll(w.bakDir)
	if w.secDir != "" {
		_ = os.RemoveAll(w.secDir)
	}
}

// apply performs one operation (not the pause after it) and updates the
// model. It reports whether the operation exposes the file empty for a moment.
func (w *c17World) apply(o C17Op) (transientEmpty bool) {
	if o.Mech == "other" {
		w.step(o)
		b := c17SecondRender(o.Doc, w.s.Decoder)
		if o.Sub {
			f, err := os.OpenFile(w.secPath, os.O_WRONLY|os.O_TRUNC, 0)
			c17Must(err)
			_, err = f.Write(b)
			c17Must(err)
			c17Must(f.Close())
		} else {
			tmp := filepath.Join(w.secDir, fmt.Sprintf(".tmp-%d", w.seq))
			c17Must(os.WriteFile(tmp, b, 0o644))
			c17Must(os.Rename(tmp, w.secPath))
		}
		w.secDoc = o.Doc
		return false
	}
	st := w.step(o)
	b := st.bytes
	if st.loop {
		// ln -s cfg.json .loop-N; mv .loop-N cfg.json
		tmp := filepath.Join(filepath.Dir(w.real), fmt.Sprintf(".loop-%d", w.seq))
		c17Must(os.Symlink(filepath.Base(w.real), tmp))
		c17Must(os.Rename(tmp, w.real))
		return false
	}
	var rolled *time.Time
	defer func() { w.keepBackup(b, rolled) }()
	switch o.Mech {
	case "rollback":
		// a file that was written earlier comes back by rename
		tmp := filepath.Join(w.bakDir, fmt.Sprintf("roll-%d", w.seq))
		if src, ok := w.baks[string(b)]; ok {
			c17Must(os.Rename(src, tmp))
			delete(w.baks, string(b))
		} else {
			c17Must(os.WriteFile(tmp, b, 0o644))
			c17Must(os.Chtimes(tmp, c17OldTime, c17OldTime))
		}
		if fi, err := os.Stat(tmp); err == nil {
			mt := fi.ModTime()
			rolled = &mt // the backup that replaces the consumed one keeps the old time
		}
		c17Must(os.Rename(tmp, w.real))
	case "rmdir":
		c17Must(os.RemoveAll(w.root))
		time.Sleep(time.Duration(o.GapMS) * time.Millisecond)
		c17Must(os.Mkdir(w.root, 0o700))
		w.build(b)
		transientEmpty = true
	case "inplace":
		// when the new bytes are as long as the old ones, every other such
		// rewrite overwrites them without truncating and then puts the old
		// modification time back (rsync --inplace -t, normalised deploy
		// timestamps): same inode, same size, same mtime, other content
		if fi, err := os.Stat(w.real); err == nil && fi.Mode().IsRegular() && fi.Size() == int64(len(b)) && w.seq%2 == 0 {
			f, err := os.OpenFile(w.real, os.O_WRONLY, 0)
			c17Must(err)
			_, err = f.Write(b)
			c17Must(err)
			c17Must(f.Close())
			c17Must(os.Chtimes(w.real, fi.ModTime(), fi.ModTime()))
			break
		}
		f, err := os.OpenFile(w.real, os.O_WRONLY|os.O_TRUNC, 0)
		c17Must(err)
		_, err = f.Write(b) // one write(2): readers see nothing or everything
		c17Must(err)
		c17Must(f.Close())
		transientEmpty = true
	case "delrec":
		c17Must(os.Remove(w.real))
		time.Sleep(time.Duration(o.GapMS) * time.Millisecond)
		c17Must(os.WriteFile(w.real, b, 0o644))
		transientEmpty = true
	case "rename":
		tmp := filepath.Join(filepath.Dir(w.real), fmt.Sprintf(".tmp-%d", w.seq))
		c17Must(os.WriteFile(tmp, b, 0o644))
		c17Must(os.Rename(tmp, w.real))
	case "swap":
		w.tsN++
		name := fmt.Sprintf("..ts-%d", w.tsN)
		dir := filepath.Join(w.root, name)
		c17Must(os.Mkdir(dir, 0o755))
		real := filepath.Join(dir, filepath.Base(w.real))
		c17Must(os.WriteFile(real, b, 0o644))
		tmpLink := filepath.Join(w.root, w.s.Link+"_tmp")
		c17Must(os.Symlink(name, tmpLink))
		c17Must(os.Rename(tmpLink, filepath.Join(w.root, w.s.Link)))
		old := w.tsDir
		w.tsDir, w.real = dir, real
		if o.Cleanup {
			c17Must(os.RemoveAll(old))
		}
	case "retarget":
		w.tsN++
		rel := fmt.Sprintf("real-%d.%s", w.tsN, w.s.Decoder)
		if o.Sub {
			d := fmt.Sprintf("d%d", w.tsN)
			c17Must(os.Mkdir(filepath.Join(w.root, d), 0o755))
			rel = filepath.Join(d, "real."+w.s.Decoder)
		}
		real := filepath.Join(w.root, rel)
		c17Must(os.WriteFile(real, b, 0o644))
		tmpLink := filepath.Join(w.root, ".cfg-link-tmp")
		c17Must(os.Symlink(rel, tmpLink))
		c17Must(os.Rename(tmpLink, w.visible))
		old, oldSub := w.real, w.realSub
		w.real, w.realSub = real, o.Sub
		if o.Cleanup {
			c17Must(os.Remove(old))
			if oldSub {
				c17Must(os.Remove(filepath.Dir(old)))
			}
		}
	}
	return transientEmpty
}

// ------------------------------------------------------------------ observer

type c17ErrRec struct {
	decoder bool
	old     *c17Config
	msg     string
}

type c17Obs struct {
	mu     sync.Mutex
	errs   []c17ErrRec // the first few, for messages
	nerrs  int
	decOld map[c17Config]bool // configs that were installed when a decoder error was delivered
	ioOld  map[c17Config]bool // the same for *os.PathError (the file could not be opened)
	news   int
	logs   []string
}

func (o *c17Obs) Printf(format string, a ...interface{}) {
	o.mu.Lock()
	defer o.mu.Unlock()
	if len(o.logs) < 40 {
		o.logs = append(o.logs, fmt.Sprintf(format, a...))
	}
}

func (o *c17Obs) Print(a ...interface{}) { o.Printf("%s", fmt.Sprint(a...)) }

func (o *c17Obs) onErr(_ context.Context, err error, oldC, _ *c17Config) {
	var de *file.DecoderErr
	rec := c17ErrRec{decoder: errors.As(err, &de), msg: err.Error()}
	if oldC != nil {
		c := *oldC
		rec.old = &c
	}
	o.mu.Lock()
	o.nerrs++
	if len(o.errs) < 8 {
		o.errs = append(o.errs, rec)
	}
	if rec.decoder && rec.old != nil {
		if o.decOld == nil {
			o.decOld = map[c17Config]bool{}
		}
		o.decOld[*rec.old] = true
	}
	var pe *os.PathError
	if !rec.decoder && rec.old != nil && errors.As(err, &pe) && !errors.Is(err, os.ErrNotExist) {
		if o.ioOld == nil {
			o.ioOld = map[c17Config]bool{}
		}
		o.ioOld[*rec.old] = true
	}
	o.mu.Unlock()
}

func (o *c17Obs) onNew(_ context.Context, _, _ *c17Config) {
	o.mu.Lock()
	o.news++
	o.mu.Unlock()
}

// decoderErrWhile reports whether a decoder error was delivered while the
// installed config was c.
func (o *c17Obs) decoderErrWhile(c c17Config) bool {
	o.mu.Lock()
	defer o.mu.Unlock()
	return o.decOld[c]
}

// ioErrWhile: the same for an error from opening the file (not "does not
// exist").
func (o *c17Obs) ioErrWhile(c c17Config) bool {
	o.mu.Lock()
	defer o.mu.Unlock()
	return o.ioOld[c]
}

func (o *c17Obs) summary() string {
	o.mu.Lock()
	defer o.mu.Unlock()
	var b strings.Builder
	fmt.Fprintf(&b, "new-config callbacks=%d, errors delivered=%d", o.news, o.nerrs)
	for i, e := range o.errs {
		if i >= 6 {
			b.WriteString(" ...")
			break
		}
		fmt.Fprintf(&b, "\n  err[%d] decoder=%v old=%+v: %s", i, e.decoder, e.old, clip(e.msg, 160))
	}
	if len(o.logs) > 0 {
		fmt.Fprintf(&b, "\n  watcher log: %s", clip(strings.Join(o.logs, " | "), 600))
	}
	return b.String()
}

func clip(s string, n int) string {
	if len(s) > n {
		return s[:n] + "..."
	}
	return s
}

// ------------------------------------------------------------------ goroutines and descriptors

type c17Gor struct {
	state string   // "select", "IO wait", "chan receive", "running", ...
	funcs []string // function lines, innermost first
	text  string
}

func c17Dump() []c17Gor {
	buf := make([]byte, 1<<18)
	for {
		n := runtime.Stack(buf, true)
		if n < len(buf) {
			buf = buf[:n]
			break
		}
		buf = make([]byte, 2*len(buf))
	}
	var out []c17Gor
	for _, blk := range strings.Split(string(buf), "\n\n") {
		lines := strings.Split(strings.TrimSpace(blk), "\n")
		if len(lines) == 0 || !strings.HasPrefix(lines[0], "goroutine ") {
			continue
		}
		g := c17Gor{text: blk}
		if i := strings.Index(lines[0], "["); i >= 0 {
			st := lines[0][i+1:]
			if j := strings.IndexAny(st, ",]"); j >= 0 {
				st = st[:j]
			}
			g.state = st
		}
		for _, l := range lines[1:] {
			if strings.HasPrefix(l, "\t") || strings.HasPrefix(l, "created by ") {
				continue
			}
			g.funcs = append(g.funcs, l)
		}
		out = append(out, g)
	}
	return out
}

func (g c17Gor) has(sub string) bool {
	for _, f := range g.funcs {
		if strings.Contains(f, sub) {
			return true
		}
	}
	return false
}

// topUser is the innermost function that is not part of the runtime.
func (g c17Gor) topUser() string {
	for _, f := range g.funcs {
		if !strings.HasPrefix(f, "runtime.") {
			return f
		}
	}
	return ""
}

const (
	c17FnLoop    = "dials/sources/file.(*WatchingSource).watchLoop"
	c17FnReader  = "fsnotify.(*inotify).readEvents"
	c17FnMonitor = ").monitor("
)

func (g c17Gor) isLoop() bool   { return g.has(c17FnLoop) }
func (g c17Gor) isReader() bool { return g.has(c17FnReader) }
func (g c17Gor) isMonitor() bool {
	return g.has("github.com/vimeo/dials.(*Dials[") && g.has(c17FnMonitor)
}

// isWatcherGor: a goroutine with a sources/file or fsnotify frame.
func (g c17Gor) isWatcherGor() bool {
	return g.has("dials/sources/file.") || g.has("fsnotify/fsnotify.")
}

func c17CountWatcherGors() int {
	n := 0
	for _, g := range c17Dump() {
		if g.isWatcherGor() {
			n++
		}
	}
	return n
}

// c17IdleOnce classifies one dump: "parked" when the watch loop waits in its
// own select, the fsnotify reader waits for the descriptor and the monitor
// waits in its own select; "gone:<who>" when one of them no longer exists;
// "busy" otherwise.
func c17IdleOnce() (string, string) {
	var loops, readers []*c17Gor
	var mon *c17Gor
	gs := c17Dump()
	for i := range gs {
		switch {
		case gs[i].isLoop():
			loops = append(loops, &gs[i])
		case gs[i].isReader():
			readers = append(readers, &gs[i])
		case gs[i].isMonitor():
			mon = &gs[i]
		}
	}
	var desc []string
	one := func(n string, g *c17Gor) {
		if g == nil {
			desc = append(desc, n+"=absent")
		} else {
			desc = append(desc, fmt.Sprintf("%s=[%s]@%s", n, g.state, clip(g.topUser(), 70)))
		}
	}
	for _, g := range loops {
		one("watchLoop", g)
	}
	if len(loops) == 0 {
		one("watchLoop", nil)
	}
	for _, g := range readers {
		one("readEvents", g)
	}
	if len(readers) == 0 {
		one("readEvents", nil)
	}
	one("monitor", mon)
	d := strings.Join(desc, " ")
	switch {
	case len(loops) < c17Watchers:
		return "gone:watchLoop", d
	case len(readers) < c17Watchers:
		return "gone:readEvents", d
	case mon == nil:
		return "gone:monitor", d
	}
	parked := mon.state == "select" && strings.Contains(mon.topUser(), c17FnMonitor)
	for _, g := range loops {
		parked = parked && g.state == "select" && strings.Contains(g.topUser(), c17FnLoop)
	}
	for _, g := range readers {
		parked = parked && g.state == "IO wait"
	}
	if parked {
		return "parked", d
	}
	return "busy", d
}

// c17Watchers is the number of file watchers the running case has started
// (the test functions of this package run one case at a time).
var c17Watchers = 1

// The deadline after which the goroutines are inspected. VERIF_C17_DEADLINE_MS
// shortens it for exploration and replays of known lost updates; verdicts are
// still decided by the parked-goroutines rule only.
var c17Deadline = func() time.Duration {
	if ms, err := strconv.Atoi(os.Getenv("VERIF_C17_DEADLINE_MS")); err == nil && ms > 0 {
		return time.Duration(ms) * time.Millisecond
	}
	return 10 * time.Second
}()

const c17DumpGap = 300 * time.Millisecond

// c17Await polls cond until it holds or the deadline passes.
func c17Await(cond func() bool) bool {
	deadline := time.Now().Add(c17Deadline)
	sleep := 50 * time.Microsecond
	for {
		if cond() {
			return true
		}
		if time.Now().After(deadline) {
			return false
		}
		time.Sleep(sleep)
		if sleep < 4*time.Millisecond {
			sleep *= 2
		}
	}
}

// c17Stuck applies the decision rule after a missed deadline: three dumps
// 300 ms apart. It returns "late" when cond came true after all, "parked"
// (or "gone:<who>") when in all three dumps nothing can make progress and
// cond is still false, and "busy" otherwise.
func c17Stuck(cond func() bool) (string, string) {
	first, detail := "", ""
	for i := 0; i < 3; i++ {
		if i > 0 {
			time.Sleep(c17DumpGap)
		}
		k, d := c17IdleOnce()
		detail += fmt.Sprintf("dump %d: %s %s; ", i+1, k, d)
		if i == 0 {
			first = k
		} else if k != first {
			first = "busy"
		}
	}
	if cond() {
		return "late", detail
	}
	return first, detail
}

func c17InotifyFDs() int {
	ents, err := os.ReadDir("/proc/self/fd")
	if err != nil {
		return -1
	}
	n := 0
	for _, e := range ents {
		if l, err := os.Readlink("/proc/self/fd/" + e.Name()); err == nil && l == "anon_inode:inotify" {
			n++
		}
	}
	return n
}

// ------------------------------------------------------------------ one run

type c17Run struct {
	w      *c17World
	obs    *c17Obs
	ws     *file.WatchingSource
	d      *dials.Dials[c17Config]
	cancel context.CancelFunc
	baseFD int
	baseG  int
	labels []string
	// overflow burst only
	gate    *c17Gate
	reload  chan os.Signal
	baseFDs map[string]bool
	// blank-long install: cancels the context SetSource was called with
	setCancel context.CancelFunc
	// blind: the watched directory was removed while no fallback poll is
	// configured; the library promises nothing about the view from then on
	blind bool
	rmdir bool // some operation removed the watched directory
	// second watched file / leading Blank
	ws2      *file.WatchingSource
	lead     *sourcewrap.Blank
	leadDone bool
	ctx      context.Context
}

// base is everything below the main file in the stack: defaults, the leading
// Blank's static source, the second watched file.
func (r *c17Run) base() c17Config { return c17Base(r.w.s, r.w.secDoc) }

// c17Base: the stack below the main file when the second file holds sec.
func c17Base(s C17Setup, sec C17Doc) c17Config {
	c := c17Defaults()
	if s.Lead {
		c.Keep = c17LeadKeep
	}
	if s.Second != nil {
		c = c17SecondOver(sec, c)
	}
	return c
}

// c17Coupled: some document sets lo or hi, so Verify may reject a stack.
func c17Coupled(s C17Setup, lists ...[]C17Op) bool {
	if s.Initial.Bound != nil || (s.Second != nil && s.Second.Bound != nil) || (s.InstallOp != nil && s.InstallOp.Doc.Bound != nil) {
		return true
	}
	for _, l := range lists {
		for _, o := range l {
			if o.Content == "new" && o.Doc.Bound != nil {
				return true
			}
		}
	}
	return false
}

// c17FinalStack plays the history on the pure model: the stack of the files'
// final contents (ok when the main file ends valid) and the initial stack.
func c17FinalStack(s C17Setup, ops []C17Op) (initial, final c17Config, mainValid bool) {
	m := c17ModelAtStart(s)
	var sec C17Doc
	if s.Second != nil {
		sec = *s.Second
	}
	initial = s.Initial.over(c17Base(s, sec))
	for _, o := range ops {
		if o.Mech == "other" {
			sec = o.Doc
		}
		m.step(o)
	}
	return initial, m.cur.doc.over(c17Base(s, sec)), m.cur.valid
}

// want is the whole stacked view for the current content of the files (the
// main file must be valid).
func (r *c17Run) want() c17Config { return r.w.cur.doc.over(r.base()) }

// leadDoneAt calls Done on the leading Blank when n operations have run.
func (r *c17Run) leadDoneAt(n, total int) {
	if r.lead == nil || r.leadDone {
		return
	}
	if at := r.w.s.LeadDoneAt; n == at || (n == total && at >= total) {
		r.leadDone = true
		r.lead.Done(r.ctx)
		r.label("lead-done")
	}
}

// applyOp performs an operation and keeps track of what can still be
// asserted afterwards.
func (r *c17Run) applyOp(o C17Op) bool {
	if o.Mech == "rmdir" {
		r.rmdir = true
		if r.w.s.PollMS == 0 {
			r.blind = true
			r.label("rmdir-nopoll")
		}
	}
	return r.w.apply(o)
}

func (r *c17Run) label(l string) {
	for _, x := range r.labels {
		if x == l {
			return
		}
	}
	r.labels = append(r.labels, l)
}

// c17Gate wraps the real decoder. When armed, the next Decode parks after it
// has consumed the file (so the watcher sits in the middle of a re-read) until
// the gate is opened.
type c17Gate struct {
	inner   dials.Decoder
	armed   atomic.Bool
	entered chan struct{} // capacity 1
	release chan struct{}
	once    sync.Once
}

func (g *c17Gate) Decode(r io.Reader, t *dials.Type) (reflect.Value, error) {
	b, err := io.ReadAll(r)
	if err != nil {
		return reflect.Value{}, err
	}
	if g.armed.CompareAndSwap(true, false) {
		g.entered <- struct{}{}
		<-g.release
	}
	return g.inner.Decode(bytes.NewReader(b), t)
}

// open lets a parked (or any later) Decode through, for good.
func (g *c17Gate) open() {
	g.armed.Store(false)
	g.once.Do(func() { close(g.release) })
}

func c17InotifyFDSet() map[string]bool {
	out := map[string]bool{}
	ents, err := os.ReadDir("/proc/self/fd")
	if err != nil {
		return out
	}
	for _, e := range ents {
		if l, err := os.Readlink("/proc/self/fd/" + e.Name()); err == nil && l == "anon_inode:inotify" {
			out[e.Name()] = true
		}
	}
	return out
}

// c17Queued is the number of bytes of events waiting in an inotify
// descriptor's kernel queue (FIONREAD); it consumes nothing.
func c17Queued(fd int) int {
	var n int32
	if _, _, e := syscall.Syscall(syscall.SYS_IOCTL, uintptr(fd), 0x541B /* FIONREAD */, uintptr(unsafe.Pointer(&n))); e != 0 {
		return -1
	}
	return int(n)
}

const c17MaxQueue = 1 << 17 // larger fs.inotify.max_queued_events: the burst is skipped

// beginBurst parks the watcher inside a decode and floods its inotify queue
// until the kernel drops events. It never fails a case: when a precondition
// does not come true the burst is skipped (label) and the operations run as
// usual.
func (r *c17Run) beginBurst() {
	skip := func(why string) {
		r.gate.open()
		r.label("overflow-skipped:" + why)
	}
	if r.rmdir {
		skip("rmdir") // the watches died with the directory: no queue to flood
		return
	}
	b, err := os.ReadFile("/proc/sys/fs/inotify/max_queued_events")
	qlen, convErr := strconv.Atoi(strings.TrimSpace(string(b)))
	if err != nil || convErr != nil || qlen <= 0 || qlen > c17MaxQueue {
		skip("queue-limit")
		return
	}
	fd := -1
	for name := range c17InotifyFDSet() {
		if !r.baseFDs[name] {
			if fd >= 0 {
				skip("descriptor")
				return
			}
			fd, _ = strconv.Atoi(name)
		}
	}
	if fd < 0 || c17Queued(fd) < 0 {
		skip("descriptor")
		return
	}
	// 1. quiet: no event pending anywhere (kernel queue empty, fsnotify's
	// reader waiting for the descriptor, watch loop in its select), so that
	// no notification from before the burst triggers a re-read after it.
	quiet := func() bool {
		if c17Queued(fd) != 0 {
			return false
		}
		k, _ := c17IdleOnce()
		return k == "parked" && c17Queued(fd) == 0
	}
	if !c17Await(quiet) {
		skip("not-quiet")
		return
	}
	// 2. park the watcher in a re-read triggered through the reload channel
	r.gate.armed.Store(true)
	select {
	case r.reload <- syscall.SIGHUP:
	default:
	}
	entered := func() bool {
		select {
		case <-r.gate.entered:
			return true
		default:
			return false
		}
	}
	if !c17Await(entered) {
		skip("not-parked")
		return
	}
	r.label("overflow-burst")
	// 3. flood the watched directory with events for an unrelated name.
	// mkdir and rmdir alternate, so the kernel cannot coalesce them. The queue
	// is full (and an overflow marker queued) once it stops growing.
	junk := filepath.Join(r.w.watchDir(), "zz-junk")
	limit := 2*qlen + 8192
	prev := c17Queued(fd)
	for i := 0; i < limit; i++ {
		if os.Mkdir(junk, 0o755) != nil || os.Remove(junk) != nil {
			r.label("overflow-flood-failed")
			break
		}
		if i%256 == 255 {
			n := c17Queued(fd)
			if n == prev && n >= qlen*16 {
				r.label("overflow-seen")
				break
			}
			prev = n
		}
	}
}

// c17LateWriter is the source handed to Blank.SetSource when the case has an
// install operation: Value and Watch delegate to the file source; once the
// real Watch has returned (every inotify watch is in place) afterWatch runs.
type c17LateWriter struct {
	*file.WatchingSource
	afterWatch func()
}

func (l *c17LateWriter) Watch(ctx context.Context, t *dials.Type, wa dials.WatchArgs) error {
	if err := l.WatchingSource.Watch(ctx, t, wa); err != nil {
		return err
	}
	l.afterWatch()
	return nil
}

// c17Start lays out the files and starts dials on them. A non-nil verdict
// ends the case.
func c17Start(s C17Setup, gated bool) (*c17Run, *vrt.Verdict) {
	r := &c17Run{obs: &c17Obs{}}
	r.baseFD = c17InotifyFDs()
	r.baseG = c17CountWatcherGors()
	r.w = c17NewWorld(s)
	dec, opts := c17Decoder(s.Decoder), []file.WatchOpt{file.WithLogger(r.obs)}
	if gated {
		r.baseFDs = c17InotifyFDSet()
		r.gate = &c17Gate{inner: dec, entered: make(chan struct{}, 1), release: make(chan struct{})}
		r.reload = make(chan os.Signal, 1)
		dec, opts = r.gate, append(opts, file.WithSignalChannel(r.reload))
	}
	if s.PollMS > 0 {
		opts = append(opts, file.WithPollInterval(time.Duration(s.PollMS)*time.Millisecond))
	}
	ws, err := file.NewWatchingSource(r.w.visible, dec, opts...)
	if err != nil {
		r.w.close()
		v := vrt.Violationf("NewWatchingSource(%q): %v", r.w.visible, err)
		return nil, &v
	}
	r.ws = ws
	ctx, cancel := context.WithCancel(context.Background())
	r.cancel, r.ctx = cancel, ctx
	def := c17Defaults()
	params := dials.Params[c17Config]{OnWatchedError: r.obs.onErr, OnNewConfig: r.obs.onNew}
	var d *dials.Dials[c17Config]
	// sources listed before the main file: the leading Blank, the second file
	var before []dials.Source
	c17Watchers = 1
	if s.Lead {
		r.lead = &sourcewrap.Blank{}
		before = append(before, r.lead)
	}
	if s.Second != nil {
		ws2, err2 := file.NewWatchingSource(r.w.secPath, c17Decoder(s.Decoder), file.WithLogger(r.obs))
		if err2 != nil {
			cancel()
			r.w.close()
			v := vrt.Violationf("NewWatchingSource(%q): %v", r.w.secPath, err2)
			return nil, &v
		}
		r.ws2 = ws2
		before = append(before, ws2)
		c17Watchers = 2
	}
	fillLead := func() error {
		if r.lead == nil {
			return nil
		}
		return r.lead.SetSource(ctx, &static.StringSource{Data: `{"keep": "` + c17LeadKeep + `"}`, Decoder: &djson.Decoder{}})
	}
	if s.blank() {
		// the way ez installs the config file: Config with a Blank, then the
		// file source is set with a context of the caller's choosing. The
		// watcher must live exactly as long as the context given to Config.
		blank := &sourcewrap.Blank{}
		if d, err = params.Config(ctx, &def, append(before, blank)...); err == nil {
			err = fillLead()
		}
		if err == nil {
			r.d = d
			var src dials.Source = ws
			if s.InstallOp != nil {
				src = &c17LateWriter{WatchingSource: ws, afterWatch: func() {
					// The file changes while SetSource is still busy. Wait
					// (bounded, nothing is decided here) until the watcher
					// has delivered the new content, as it would while the
					// installing goroutine is descheduled.
					r.w.apply(*s.InstallOp)
					want := r.want()
					c17Await(func() bool { return r.viewIs(want) })
				}}
			}
			setCtx, setCancel := context.WithCancel(context.Background())
			err = blank.SetSource(setCtx, src)
			if s.Install == "blank-short" {
				setCancel()
			} else {
				r.setCancel = setCancel
			}
		}
	} else {
		if d, err = params.Config(ctx, &def, append(before, ws)...); err == nil {
			err = fillLead()
		}
	}
	if err != nil {
		cancel()
		if r.setCancel != nil {
			r.setCancel()
		}
		r.w.close()
		if errors.Is(err, syscall.EMFILE) || errors.Is(err, syscall.ENOSPC) || errors.Is(err, syscall.ENFILE) ||
			strings.Contains(err.Error(), "too many open files") || strings.Contains(err.Error(), "no space left") {
			v := vrt.Discardf("environment: inotify limit reached")
			return nil, &v
		}
		v := vrt.Violationf("Config / SetSource on a valid initial file failed: %v", err)
		return nil, &v
	}
	r.d = d
	if s.InstallOp != nil {
		// The file was rewritten after the watcher had started: whatever the
		// order of events inside SetSource, the view must come to hold the
		// latest content (ordinary convergence rule).
		if v := r.awaitView(r.want(), "after the rewrite during SetSource", []C17Op{*s.InstallOp}); v != nil {
			if v.Status == vrt.StatusViolation {
				v.Key = "install-stale"
			}
			r.finish()
			return nil, v
		}
		return r, nil
	}
	if got, want := *d.View(), r.want(); got != want {
		v := vrt.KeyedViolationf("initial-view", "initial view %+v, want %+v", got, want)
		r.finish()
		return nil, &v
	}
	return r, nil
}

// finish cancels and cleans up without checking anything.
func (r *c17Run) finish() {
	if r.gate != nil {
		r.gate.open()
	}
	r.cancel()
	if r.setCancel != nil {
		r.setCancel()
	}
	r.w.close()
}

func (r *c17Run) viewIs(c c17Config) bool { return *r.d.View() == c }

// awaitView waits until the view equals want. nil means converged.
func (r *c17Run) awaitView(want c17Config, what string, ops []C17Op) *vrt.Verdict {
	cond := func() bool { return r.viewIs(want) }
	if c17Await(cond) {
		return nil
	}
	kind, detail := c17Stuck(cond)
	switch {
	case kind == "late":
		r.label("late")
		return nil
	case kind == "busy":
		v := vrt.Discardf("inconclusive")
		return &v
	}
	key := "lost-update"
	if strings.HasPrefix(kind, "gone:") {
		key = "watcher-exited"
	} else if k := r.classify(ops); k != "" {
		key = k
	}
	onDisk, _ := os.ReadFile(r.w.visible)
	v := vrt.KeyedViolationf(key, "%s: view never converged: view=%+v want=%+v (file content now %q); goroutines %s: %s\n%s",
		what, *r.d.View(), want, clip(string(onDisk), 120), kind, detail, r.obs.summary())
	return &v
}

// settleOp implements the settle flag of operation i (already applied): the
// file has stopped changing, so the view must come to show its document.
func (r *c17Run) settleOp(ops []C17Op, i int) *vrt.Verdict {
	if !ops[i].Settle || r.blind || !r.w.cur.valid {
		return nil
	}
	if r.want().Verify() != nil {
		// the stack of the current contents is not a valid config: Verify
		// keeps it out, there is nothing to wait for
		r.label("settle-skipped-unverified")
		return nil
	}
	r.label("settle")
	return r.awaitView(r.want(), fmt.Sprintf("settle step after operation %d", i), ops[:i+1])
}

// awaitIdleView waits until the view equals want while the watcher is idle.
// Never seeing the watcher idle is not a failure.
func (r *c17Run) awaitIdleView(want c17Config, ops []C17Op) *vrt.Verdict {
	idle := func() bool {
		if !r.viewIs(want) {
			return false
		}
		k, _ := c17IdleOnce()
		return k == "parked" && r.viewIs(want)
	}
	if c17Await(idle) {
		return nil
	}
	if r.viewIs(want) {
		r.label("not-idle-at-deadline")
		return nil
	}
	return r.awaitView(want, "after the last operation (the view had shown the final config and moved away)", ops)
}

// classify gives a root-cause key for a lost update when the history allows
// one (heuristic; the direct layout never matches; swap-then-touch also covers
// a retarget in the link layout):
//
//   - k8s-link-name: the library re-reads on events named <dir>/..dir only, so
//     the swap of a link with another name (Kubernetes: ..data) is noticed
//     only through the removal of the previously watched directory. Chosen
//     when the link is not "..dir" and a swap is among the operations the view
//     never caught up with.
//   - link-dir-watch-removed (link layout): when the target moves from the
//     link's own directory to another one, the watch on the "old resolved
//     directory" that is removed is the watch on the link's directory itself;
//     later retargets of the link are never noticed. Chosen when such a move
//     is followed by another retarget.
//   - k8s-swap-then-touch: the watch on the new timestamped directory is added
//     after the file has been read (and not at all while the file is missing),
//     so an in-place rewrite / rename-over / delete+recreate right after a
//     swap can go unnoticed. Chosen when some swap is directly followed by
//     another kind of operation without a settle step in between.
func (r *c17Run) classify(ops []C17Op) string {
	if r.w.s.Layout == "direct" {
		return ""
	}
	seen := -1 // index of the operation whose document the view shows
	cur := r.d.View().Counter
	for i, o := range ops {
		if o.Content == "new" && o.Doc.Counter == cur {
			seen = i
		}
	}
	if r.w.s.Layout == "k8s" && r.w.s.Link != "..dir" {
		for _, o := range ops[seen+1:] {
			if o.Mech == "swap" {
				return "k8s-link-name"
			}
		}
	}
	if r.w.s.Layout == "link" {
		inSub, left := r.w.s.Link == "sub", false
		for _, o := range ops {
			if o.Mech != "retarget" {
				continue
			}
			if left {
				return "link-dir-watch-removed"
			}
			if !inSub && o.Sub {
				left = true
			}
			inSub = o.Sub
		}
	}
	for i := 0; i+1 < len(ops); i++ {
		if ops[i].moves() && !ops[i+1].moves() && !ops[i].Settle {
			return "k8s-swap-then-touch"
		}
	}
	return ""
}

// release cancels the context and checks that the watcher lets go of its
// goroutines and inotify descriptors.
func (r *c17Run) release() *vrt.Verdict {
	v := r.releaseChecks()
	if r.setCancel != nil {
		// blank-long: the SetSource context ends only now
		r.setCancel()
	}
	return v
}

func (r *c17Run) releaseChecks() *vrt.Verdict {
	if r.gate != nil {
		r.gate.open()
	}
	r.cancel()
	done := make(chan struct{})
	go func() {
		r.ws.WG.Wait()
		if r.ws2 != nil {
			r.ws2.WG.Wait()
		}
		close(done)
	}()
	waited := func() bool {
		select {
		case <-done:
			return true
		default:
			return false
		}
	}
	if !c17Await(waited) {
		// Only the loop goroutine calls WG.Done(): stuck means that in all
		// three dumps it is parked, or no longer exists.
		stuck, detail := true, ""
		for i := 0; i < 3; i++ {
			if i > 0 {
				time.Sleep(c17DumpGap)
			}
			found := false
			for _, g := range c17Dump() {
				if g.isLoop() {
					found = true
					detail += fmt.Sprintf("dump %d: watchLoop [%s] @ %s; ", i+1, g.state, clip(g.topUser(), 80))
					if g.state == "running" || g.state == "runnable" || g.state == "syscall" {
						stuck = false
					}
				}
			}
			if !found {
				detail += fmt.Sprintf("dump %d: watchLoop absent; ", i+1)
			}
		}
		if waited() {
			r.label("late")
		} else if stuck {
			v := vrt.KeyedViolationf("wait-stuck", "WG.Wait() does not return after cancel: %s\n%s", detail, r.obs.summary())
			return &v
		} else {
			v := vrt.Discardf("inconclusive")
			return &v
		}
	}
	clean := func() bool { return c17CountWatcherGors() <= r.baseG && c17InotifyFDs() <= r.baseFD }
	if c17Await(clean) {
		return nil
	}
	// not clean at the deadline: leftover goroutines must be parked in all
	// three dumps (or absent, with the descriptor still open)
	parked, detail := true, ""
	for i := 0; i < 3; i++ {
		if i > 0 {
			time.Sleep(c17DumpGap)
		}
		for _, g := range c17Dump() {
			if g.isWatcherGor() {
				detail += fmt.Sprintf("dump %d: [%s] %s; ", i+1, g.state, clip(g.topUser(), 80))
				if g.state == "running" || g.state == "runnable" || g.state == "syscall" {
					parked = false
				}
			}
		}
	}
	if clean() {
		r.label("late")
		return nil
	}
	if !parked {
		v := vrt.Discardf("inconclusive")
		return &v
	}
	g, fd := c17CountWatcherGors(), c17InotifyFDs()
	key := "goroutine-leak"
	if fd > r.baseFD {
		key = "inotify-leak"
	}
	v := vrt.KeyedViolationf(key, "after cancel and WG.Wait(): %d goroutine(s) with a sources/file or fsnotify frame (baseline %d), %d inotify descriptor(s) (baseline %d): %s",
		g, r.baseG, fd, r.baseFD, detail)
	return &v
}

// c17Guard turns the harness's own I/O failures into a discard.
func c17Guard(run func() vrt.Verdict) (v vrt.Verdict) {
	defer func() {
		if p := recover(); p != nil {
			if a, ok := p.(c17Abort); ok {
				v = vrt.Discardf("environment: harness file operation failed: %v", a.err)
				return
			}
			panic(p)
		}
	}()
	return run()
}

func c17Sleep(ms int) {
	if ms > 0 {
		time.Sleep(time.Duration(ms) * time.Millisecond)
	}
}

// c17OpLabels computes the labels and the non-trivial flag of a history.
func c17OpLabels(s C17Setup, ops []C17Op) (bool, []string) {
	kinds := map[string]bool{}
	zero := false
	labels := []string{"decoder=" + s.Decoder, "layout=" + s.Layout}
	if s.Layout != "direct" {
		labels = append(labels, "link="+s.Link)
	}
	if s.blank() {
		labels = append(labels, "install="+s.Install)
	} else {
		labels = append(labels, "install=direct")
	}
	if s.InstallOp != nil {
		labels = append(labels, "install-op")
	}
	if s.Second != nil {
		labels = append(labels, "two-files")
	}
	if c17Coupled(s, ops) {
		labels = append(labels, "verify-coupled")
	}
	if s.Lead {
		labels = append(labels, "lead-blank")
	}
	if s.PollMS > 0 {
		labels = append(labels, "poll=on")
	} else {
		labels = append(labels, "poll=off")
	}
	for i, o := range ops {
		kinds[o.kind()] = true
		if i < len(ops)-1 && o.PauseMS == 0 {
			zero = true
		}
	}
	ks := make([]string, 0, len(kinds))
	for k := range kinds {
		ks = append(ks, k)
	}
	sort.Strings(ks)
	for _, k := range ks {
		labels = append(labels, "kind="+k)
	}
	switch n := len(ops); {
	case n <= 2:
		labels = append(labels, "ops=1-2")
	case n <= 6:
		labels = append(labels, "ops=3-6")
	default:
		labels = append(labels, "ops=7-12")
	}
	if zero {
		labels = append(labels, "zero-pause")
	}
	return len(ops) >= 3 && len(kinds) >= 2 && zero, labels
}

// ------------------------------------------------------------------ C17 (a) convergence

func runC17Converge(c C17Case) vrt.Verdict {
	if err := c.C17Setup.validate(); err != nil {
		return vrt.Discardf("malformed case: %v", err)
	}
	if len(c.Ops) < 1 || len(c.Ops) > 12 {
		return vrt.Discardf("malformed case: %d ops", len(c.Ops))
	}
	if err := c17ValidOps(c.C17Setup, c.Ops, c.C17Setup.counters(), nil); err != nil {
		return vrt.Discardf("malformed case: %v", err)
	}
	// Model the states to find where the trailing invalid stretch begins.
	valid := make([]bool, len(c.Ops))
	lastValidOp := -1 // index of the last operation that leaves the file valid (-1: the initial content)
	lastMainOp := -1  // the same among the operations on the main file
	m := c17ModelAtStart(c.C17Setup)
	for i, o := range c.Ops {
		valid[i] = m.step(o).valid
		if valid[i] {
			lastValidOp = i
			if o.Mech != "other" {
				lastMainOp = i
			}
		}
	}
	if !valid[len(c.Ops)-1] {
		for _, o := range c.Ops[lastValidOp+1:] {
			if o.Mech == "other" {
				// the error for the malformed main file is not delivered
				// again after the second file has changed
				return vrt.Discardf("malformed case: the second file changes inside the trailing invalid stretch")
			}
		}
	}
	if !valid[len(c.Ops)-1] && lastMainOp >= 0 && c.Ops[lastMainOp].Content != "new" {
		// When earlier bytes come back (identical / restore / revert) "the
		// view shows them" does not tell whether the watcher has caught up, so
		// the last good config before a trailing invalid stretch would be
		// ambiguous (another valid state, or with YAML the empty file of a
		// truncating rewrite, may still be installed afterwards).
		return vrt.Discardf("malformed case: the last valid content of a history that ends invalid must be new")
	}
	if c17Coupled(c.C17Setup, c.Ops) {
		// Verify (lo <= hi) may keep intermediate stacks out; the oracle is
		// the stack of the final contents, which has to be a valid config.
		ini, fin, mainValid := c17FinalStack(c.C17Setup, c.Ops)
		if ini.Verify() != nil || !mainValid || fin.Verify() != nil {
			return vrt.Discardf("malformed case: with lo/hi documents the initial and the final stack must verify and the main file must end valid")
		}
	}
	burstStart := len(c.Ops) // index of the first operation inside the overflow burst
	if c.Burst != 0 {
		if c.Second != nil {
			return vrt.Discardf("malformed case: burst with two watchers")
		}
		if c.Burst < 1 || c.Burst > 3 || c.Burst > len(c.Ops) {
			return vrt.Discardf("malformed case: burst %d", c.Burst)
		}
		burstStart = len(c.Ops) - c.Burst
		for _, o := range c.Ops[burstStart:] {
			if o.Settle {
				return vrt.Discardf("malformed case: settle inside the burst")
			}
		}
		if !valid[len(c.Ops)-1] && lastValidOp >= burstStart {
			return vrt.Discardf("malformed case: the settle step before the trailing invalid content falls inside the burst")
		}
	}
	return c17Guard(func() vrt.Verdict {
		r, v := c17Start(c.C17Setup, c.Burst > 0)
		if v != nil {
			return *v
		}
		nt, labels := c17OpLabels(c.C17Setup, c.Ops)
		r.labels = labels

		finalValid, settleAfter := valid[len(c.Ops)-1], -2
		if !finalValid {
			settleAfter = lastValidOp
		}

		var lastGood c17Config
		tailEmpty := false
		settle := func() *vrt.Verdict {
			// The file is valid now and only invalid content follows: wait
			// until the watcher has delivered it, so that "the last good
			// config" is unambiguous.
			lastGood = r.want()
			if r.blind {
				return nil
			}
			return r.awaitView(lastGood, "before the trailing invalid content", c.Ops)
		}
		if settleAfter == -1 {
			if v := settle(); v != nil {
				r.finish()
				return *v
			}
		}
		for i, o := range c.Ops {
			r.leadDoneAt(i, len(c.Ops))
			if i == burstStart {
				r.beginBurst()
			}
			te := r.applyOp(o)
			if !finalValid && i > settleAfter && te {
				tailEmpty = true
			}
			if i == settleAfter {
				if v := settle(); v != nil {
					r.finish()
					return *v
				}
			} else if v := r.settleOp(c.Ops, i); v != nil {
				r.finish()
				return *v
			}
			if i < len(c.Ops)-1 {
				c17Sleep(o.PauseMS)
			}
		}
		if r.gate != nil {
			r.gate.open() // end of the burst: the watcher goes on
		}
		r.leadDoneAt(len(c.Ops), len(c.Ops))
		// harness self-check: the model and the disk agree
		if onDisk, err := os.ReadFile(r.w.visible); r.w.cur.loop {
			if !errors.Is(err, syscall.ELOOP) {
				r.finish()
				panic(fmt.Sprintf("harness model out of sync with the disk: want ELOOP, got %q, %v", onDisk, err))
			}
			r.label("final=unopenable")
		} else if err != nil || string(onDisk) != string(r.w.cur.bytes) {
			r.finish()
			panic(fmt.Sprintf("harness model out of sync with the disk: %q vs %q (%v)", onDisk, r.w.cur.bytes, err))
		}

		if r.blind {
			// The watched directory was removed and no fallback poll is
			// configured: the library documents that it does not follow the
			// directory (TODO in watchLoop), so nothing is asserted about the
			// view; the watcher must still be released on cancel.
			v = r.release()
			r.w.close()
			if v != nil {
				return *v
			}
			return vrt.OK(nt, r.labels...)
		}
		if finalValid {
			switch lc := c.Ops[len(c.Ops)-1].Content; lc {
			case "new":
				r.label("final=valid")
			case "same":
				r.label("final=identical")
			default:
				r.label("final=" + lc)
			}
			if v := r.awaitView(r.want(), "after the last operation", c.Ops); v != nil {
				r.finish()
				return *v
			}
			// Earlier bytes may have come back (restore / revert / identical):
			// the view can show the final config before the watcher has caught
			// up. Keep looking until the watcher is idle with the right view;
			// a view that moves away for good is a lost update like any other.
			if v := r.awaitIdleView(r.want(), c.Ops); v != nil {
				r.finish()
				return *v
			}
		} else {
			r.label("final=invalid")
			// Acceptable installed configs: the last good one; with YAML an
			// empty file is a valid (empty) document, so a truncating
			// operation in the tail may legitimately have installed the bare
			// defaults.
			accept := []c17Config{lastGood}
			if c.Decoder == "yaml" && tailEmpty {
				accept = append(accept, r.base()) // the main file contributes nothing
			}
			cond := func() bool {
				cur := *r.d.View()
				for _, a := range accept {
					// malformed content: a decoder error; a path that cannot
					// be opened: the error of the open
					if cur == a && ((!r.w.cur.loop && r.obs.decoderErrWhile(a)) || (r.w.cur.loop && r.obs.ioErrWhile(a))) {
						return true
					}
				}
				return false
			}
			if !c17Await(cond) {
				kind, detail := c17Stuck(cond)
				switch {
				case kind == "late":
					r.label("late")
				case kind == "busy":
					r.finish()
					return vrt.Discardf("inconclusive")
				default:
					cur := *r.d.View()
					key := "error-not-reported"
					ok := false
					for _, a := range accept {
						ok = ok || cur == a
					}
					if !ok {
						key = "not-last-good"
					}
					if strings.HasPrefix(kind, "gone:") {
						key = "watcher-exited"
					} else if k := r.classify(c.Ops); k != "" {
						key = k
					}
					msg := fmt.Sprintf("final content %q is invalid (or the path cannot be opened): want view %+v and the decoder / open error delivered while it is installed; view=%+v; goroutines %s: %s\n%s",
						clip(string(r.w.cur.bytes), 80), accept, cur, kind, detail, r.obs.summary())
					r.finish()
					return vrt.KeyedViolationf(key, "%s", msg)
				}
			}
			if *r.d.View() != lastGood {
				r.label("yaml-empty-installed")
			}
		}
		v = r.release()
		r.w.close()
		if v != nil {
			return *v
		}
		return vrt.OK(nt, r.labels...)
	})
}

func TestC17Converge(t *testing.T) {
	vrt.Check(t, vrt.Prop[C17Case]{
		ID: "C17", Name: "converge",
		Rule: "a real temp directory holds a JSON or YAML config file, direct, in the Kubernetes AtomicWriter layout (visible symlink -> <link>/file, <link> -> ..ts-N, link named ..data or ..dir), " +
			"behind a plain symlink (target next to the link or in a subdirectory; retarget = new target file, new symlink renamed over the visible one) " +
			"or as a regular file reached through a symlinked directory (conf -> real, watched path conf/cfg.json: both directory names are one inode and one inotify watch descriptor); " +
			"a real file.WatchingSource, without the fallback poll or (1 case in 4) WithPollInterval(25 or 40 ms), is given to dials.Config directly or (2 in 5) installed the way ez does it: Config with a sourcewrap.Blank, then Blank.SetSource(file source) " +
			"with a context of its own that is cancelled as soon as SetSource has returned (blank-short) or only after the release checks (blank-long) - the watcher must live exactly as long as the context given to Config; " +
			"in half of the Blank installs the file is rewritten while SetSource is still in progress (install_op: the source given to SetSource is a thin wrapper whose Watch calls the real Watch - so every inotify watch is in place -, " +
			"then performs one in-place write or rename-over with new valid content, waits (bounded, deciding nothing) until the view shows it, and returns); whatever the order of events inside SetSource, " +
			"the view must then hold the latest content (ordinary convergence rule, key install-stale), and the history starts from there; " +
			"More watching sources in the same Dials, listed BEFORE the main file: (1 case in 3) a second watched file in a directory of its own that sets keep (unique per version) and sometimes limit - the main file's limit wins - " +
			"and is rewritten by 'other' operations (rename-over or in place) in the same history; (1 in 4) a leading sourcewrap.Blank that gets a static source (keep=lead) right after Config and calls Done() after lead_done_at operations while the file watchers go on. " +
			"The oracle is always the WHOLE stacked view: defaults < leading Blank < second file < main file, known by construction. " +
			"With a second file, half of the histories that end valid are Verify-coupled: the config type implements VerifiedConfig (lo <= hi), documents of the main file set hi, documents of the second file set lo; " +
			"a content may be rejected because of the OTHER file's current value and become acceptable when that file changes. The initial and the final stack verify by construction; settle steps are skipped while the current stack does not verify; " +
			"most of these histories end with a deliberate squeeze (one file gets a content rejected because of the other, 30 ms later the other file changes so that the pair verifies); the view must end as the stack of both files' final contents. " +
			"Fault operation eloop: a symlink pointing at itself is renamed over the regular config file (open fails with ELOOP, not ENOENT; the next operation on the main file replaces the path wholesale). As a final state it is judged like malformed content " +
			"(the last good stack stays installed) except that the error required through OnWatchedError is the *os.PathError of the open, not a decoder error; as an interlude the restored content must converge. " +
			"1..12 operations {rollback: a file with an OLDER modification time is renamed over the config - the backup copy written when those bytes were current (restore / revert / identical content), " +
			"or for new or malformed content a fresh file whose mtime is set back to 2000-01-01; the view must hold the rolled-back content like after any rename-over; remove the whole watched directory, keep it away for 0/60/150 ms, build the layout again with new content (rmdir), in-place truncate+write, temp+rename-over, ..ts-N/<link> swap or symlink retarget with or without removal of the old directory/target, delete+recreate} " +
			"each writing new valid content (unique counter), identical bytes, malformed content, the last valid content again (restore) or the valid content before that (revert), with pauses of 0/1/30 ms from the case " +
			"(a new-content operation may carry a settle flag: wait for the view to show it before going on); final content valid, identical to the previous, restored, reverted or invalid. " +
			"Oracle by construction: View() must become defaults overlaid with the fields of the final document; when the final content is invalid the harness first waits for the last valid content to be installed " +
			"(before the trailing invalid operations) and then requires a *file.DecoderErr delivered through OnWatchedError while that config is still installed. " +
			"Non-convergence at the 10 s deadline is a violation only when three goroutine dumps 300 ms apart all show watchLoop in its select, the fsnotify reader in IO wait and the monitor in its select; otherwise the case is discarded as inconclusive. " +
			"A small fixed fraction of the cases (about one in sixteen) ends with an overflow burst around its last 1..3 operations: the harness waits until no notification is pending (FIONREAD on the watcher's inotify descriptor is 0, reader in IO wait, watch loop in its select), " +
			"parks the watcher inside a decode (gating decoder around the real one, re-read triggered through WithSignalChannel), creates and removes a directory in the watched directory until the kernel queue stops growing " +
			"(fs.inotify.max_queued_events read at run time; skipped with a label when unreadable or above 131072), applies the operations (their notifications are dropped, only the overflow marker remains) and opens the gate; " +
			"the same oracle applies: the watcher must treat the overflow as 'anything may have changed' and re-read. A precondition that does not come true only skips the burst (label overflow-skipped:*), it never fails the case. " +
			"After an rmdir the convergence oracle applies only when the fallback poll is on (only the poll can notice the new directory; the poll must keep running while the file is missing); without it the library promises nothing " +
			"(watchLoop has a TODO for a vanished parent directory), so from the rmdir on nothing is asserted about the view (label rmdir-nopoll) and only the release checks apply; no overflow burst in histories with an rmdir. " +
			"Every case ends with cancel: WG.Wait() returns, no goroutine with a sources/file or fsnotify frame, inotify descriptors back to the count before Config. " +
			"non-trivial = at least 3 operations of at least 2 kinds with at least one zero pause; distinct = distinct histories",
		Assumptions: []string{
			"a single write(2) of a small document after O_TRUNC is seen by a concurrent reader as empty or complete, never partial",
			"an empty YAML file is a valid empty document: a truncating operation in a trailing invalid stretch may install the bare defaults (accepted and labelled yaml-empty-installed)",
			"callbacks are not dropped for histories this short (the callback channel holds 64 events)",
			"the Kubernetes swap is modelled as mkdir ..ts-N, write file, symlink <link>_tmp, rename over <link>, optionally RemoveAll of the previous directory; operations on the content act on the regular file behind the symlinks",
			"the plain-symlink layout is an extension of the property's list (an atomic rename-over of the watched path itself)",
			"inotify is available; hitting the per-user inotify instance limit discards the case",
			"with two watched files the goroutine rule needs every watch loop and every fsnotify reader parked; no overflow burst then; the second file does not change inside a trailing invalid stretch of the main file (the decoder error would not be delivered again)",
			"with the fallback poll on, a view that still differs at the 10 s deadline while the watch loop sits in its select in three dumps is a violation although a later tick could in principle still change it: some 250 ticks have passed by then",
			"WithPollInterval is documented as a fallback ticker that triggers polling for changes: every tick re-reads the path, whatever happened to the watches",
			"overflow burst: alternating mkdir/rmdir events of one name are not coalesced by inotify; a queue that holds at least max_queued_events*16 bytes and does not grow over 512 further events is full (label overflow-seen); fsnotify reports the marker as an error on Watcher.Errors",
		},
		Gen: genC17Converge, Run: runC17Converge,
	})
}

// ------------------------------------------------------------------ C17 (b) identical replacement

// C17IdentCase: a prefix history, then identical-bytes atomic replacements
// after quiescence, then one real atomic change.
type C17IdentCase struct {
	C17Setup
	Prefix []C17Op `json:"prefix"` // 0..3 operations, the last one leaves valid content
	Repl   []C17Op `json:"repl"`   // 1..3 atomic replacements (rename / swap / retarget) with identical bytes; the last pause is the gap before the change
	Change C17Op   `json:"change"` // atomic replacement with new valid content
}

func genC17Ident(t *rapid.T) C17IdentCase {
	s := genC17Setup(t)
	c := C17IdentCase{C17Setup: s}
	np := rapid.IntRange(0, 3).Draw(t, "nprefix")
	for i := 0; i < np; i++ {
		content := ""
		if i == np-1 {
			content = "new"
		}
		c.Prefix = append(c.Prefix, genC17Op(t, s, i+2, content, false, false, false))
	}
	nr := rapid.IntRange(1, 3).Draw(t, "nrepl")
	for i := 0; i < nr; i++ {
		o := genC17Op(t, s, 0, "same", true, true, false)
		if i == nr-1 {
			o.PauseMS = rapid.SampledFrom([]int{0, 30, 30, 100, 100}).Draw(t, "gap")
		}
		c.Repl = append(c.Repl, o)
	}
	c.Change = genC17Op(t, s, 100, "new", true, true, false)
	gap := c.Repl[nr-1].PauseMS
	c17AvoidKnown(s, append(c17Ptrs(c.Prefix, c.Repl), &c.Change))
	if gap == 100 {
		c.Repl[nr-1].PauseMS = gap
	}
	return c
}

func c17Atomic(o C17Op) bool { return o.Mech == "rename" || o.moves() }

func c17SerialNum(s dials.CfgSerial[c17Config]) uint64 {
	return reflect.ValueOf(s).Field(0).Uint()
}

func runC17Ident(c C17IdentCase) vrt.Verdict {
	if err := c.C17Setup.validate(); err != nil {
		return vrt.Discardf("malformed case: %v", err)
	}
	if c17Coupled(c.C17Setup, c.Prefix, c.Repl, []C17Op{c.Change}) {
		return vrt.Discardf("malformed case: lo/hi documents belong to the converge check")
	}
	if len(c.Prefix) > 3 || len(c.Repl) < 1 || len(c.Repl) > 3 {
		return vrt.Discardf("malformed case: %d prefix, %d repl", len(c.Prefix), len(c.Repl))
	}
	counters := c.C17Setup.counters()
	if err := c17ValidOps(c.C17Setup, c.Prefix, counters, nil); err != nil {
		return vrt.Discardf("malformed case: prefix %v", err)
	}
	if n := len(c.Prefix); n > 0 && c.Prefix[n-1].Content != "new" {
		return vrt.Discardf("malformed case: prefix must end with valid content")
	}
	for _, o := range c.Prefix {
		if o.Mech == "rmdir" || o.Mech == "other" || o.Mech == "eloop" {
			return vrt.Discardf("malformed case: %s in the prefix", o.Mech)
		}
	}

	if err := c17ValidOps(c.C17Setup, c.Repl, counters, map[int]bool{100: true}); err != nil {
		return vrt.Discardf("malformed case: repl %v", err)
	}
	for _, o := range c.Repl {
		if o.Content != "same" || !c17Atomic(o) {
			return vrt.Discardf("malformed case: repl must be atomic with identical bytes")
		}
	}
	if err := c17ValidOps(c.C17Setup, []C17Op{c.Change}, counters, nil); err != nil {
		return vrt.Discardf("malformed case: change %v", err)
	}
	if c.Change.Content != "new" || !c17Atomic(c.Change) {
		return vrt.Discardf("malformed case: change must be atomic with new content")
	}
	return c17Guard(func() vrt.Verdict {
		r, v := c17Start(c.C17Setup, false)
		if v != nil {
			return *v
		}
		all := append(append(append([]C17Op{}, c.Prefix...), c.Repl...), c.Change)
		_, r.labels = c17OpLabels(c.C17Setup, all)
		for i, o := range c.Prefix {
			r.leadDoneAt(i, len(c.Prefix))
			r.applyOp(o)
			if v := r.settleOp(c.Prefix, i); v != nil {
				r.finish()
				return *v
			}
			c17Sleep(o.PauseMS)
		}
		// Quiescence: every version of the file has a unique counter, so once
		// the view shows the prefix's final document the watcher has read
		// those very bytes; the file does not change any more, hence every
		// later read sees the same bytes.
		r.leadDoneAt(len(c.Prefix), len(c.Prefix))
		if v := r.awaitView(r.want(), "after the prefix", c.Prefix); v != nil {
			r.finish()
			return *v
		}
		cfg0, s0 := r.d.ViewVersion()
		for _, o := range c.Repl {
			r.applyOp(o)
			c17Sleep(o.PauseMS)
		}
		// Invariant, sound at any instant: no new version between the
		// snapshot and the real change.
		if cfg1, s1 := r.d.ViewVersion(); s1 != s0 {
			msg := fmt.Sprintf("identical-bytes atomic replacement produced a new version: serial %d -> %d, config %+v -> %+v\n%s",
				c17SerialNum(s0), c17SerialNum(s1), *cfg0, *cfg1, r.obs.summary())
			r.finish()
			return vrt.KeyedViolationf("identical-new-version", "%s", msg)
		}
		// Barrier: events are handled in order, so once the real change is
		// visible the replacements' events have been handled too. The change
		// is atomic, hence the only contents ever readable were the old bytes
		// and the new ones: exactly one new version is allowed.
		r.w.apply(c.Change)
		if v := r.awaitView(r.want(), "after the real change", all); v != nil {
			r.finish()
			return *v
		}
		_, s2 := r.d.ViewVersion()
		if n := c17SerialNum(s2) - c17SerialNum(s0); n != 1 {
			msg := fmt.Sprintf("%d identical-bytes atomic replacement(s) followed by one atomic change produced %d new versions, want exactly 1\n%s",
				len(c.Repl), n, r.obs.summary())
			r.finish()
			return vrt.KeyedViolationf("identical-new-version", "%s", msg)
		}
		gap := c.Repl[len(c.Repl)-1].PauseMS
		r.label(fmt.Sprintf("gap=%dms", gap))
		r.label(fmt.Sprintf("repl=%d", len(c.Repl)))
		v = r.release()
		r.w.close()
		if v != nil {
			return *v
		}
		return vrt.OK(gap >= 30 && (len(c.Prefix) > 0 || len(c.Repl) > 1), r.labels...)
	})
}

func TestC17Identical(t *testing.T) {
	vrt.Check(t, vrt.Prop[C17IdentCase]{
		ID: "C17", Name: "identical",
		Rule: "same world as C17/converge (direct or Blank install, with or without the fallback poll; no rmdir); a prefix of 0..3 arbitrary operations ending in valid content, wait until the view shows it (quiescence: contents carry unique counters, so the watcher has read the final bytes and every later read sees the same bytes), " +
			"take (cfg, serial) = ViewVersion(); 1..3 atomic replacements (temp+rename-over, ..ts-N/<link> swap, or retarget of a plain symlink) with identical bytes, pauses 0/1/30 ms, then a gap of 0/30/100 ms; " +
			"oracle 1: just before the next step ViewVersion() must return a serial == the snapshot (sound at any instant); " +
			"oracle 2: one atomic replacement with new content follows as a barrier (events are handled in order, so when the new content is visible the replacements' events have been handled); the serial number must have advanced by exactly 1 " +
			"(atomic operations expose no intermediate content, so old bytes -> new bytes is the only possible transition). " +
			"No wall-clock bound decides anything: a slow watcher only makes oracle 1 vacuous, never wrong. Ends with the release checks. " +
			"non-trivial = gap >= 30 ms and (a prefix or more than one replacement)",
		Assumptions: []string{
			"the serial number inside CfgSerial is read with reflect (field 0) to count versions; equality of serials uses ==",
			"rename(2) over a file or a symlink is atomic for readers of the path",
		},
		Gen: genC17Ident, Run: runC17Ident,
	})
}

// ------------------------------------------------------------------ C17 (c) release under activity

// C17ReleaseCase cancels in the middle of a history.
type C17ReleaseCase struct {
	C17Setup
	Ops           []C17Op `json:"ops"`
	CancelAt      int     `json:"cancel_at"`       // cancel after this many operations (0..len)
	CancelDelayMS int     `json:"cancel_delay_ms"` // extra pause before cancel
}

func genC17Release(t *rapid.T) C17ReleaseCase {
	s := genC17Setup(t)
	ops := genC17Ops(t, s, 1, 8, "", false)
	return C17ReleaseCase{C17Setup: s, Ops: ops,
		CancelAt:      rapid.IntRange(0, len(ops)).Draw(t, "cancel_at"),
		CancelDelayMS: rapid.SampledFrom([]int{0, 0, 1, 30}).Draw(t, "cancel_delay")}
}

func runC17Release(c C17ReleaseCase) vrt.Verdict {
	if err := c.C17Setup.validate(); err != nil {
		return vrt.Discardf("malformed case: %v", err)
	}
	if len(c.Ops) < 1 || len(c.Ops) > 12 || c.CancelAt < 0 || c.CancelAt > len(c.Ops) || !c17Pauses[c.CancelDelayMS] {
		return vrt.Discardf("malformed case")
	}
	if c17Coupled(c.C17Setup, c.Ops) {
		return vrt.Discardf("malformed case: lo/hi documents belong to the converge check")
	}
	if err := c17ValidOps(c.C17Setup, c.Ops, c.C17Setup.counters(), nil); err != nil {
		return vrt.Discardf("malformed case: %v", err)
	}
	return c17Guard(func() vrt.Verdict {
		r, v := c17Start(c.C17Setup, false)
		if v != nil {
			return *v
		}
		_, r.labels = c17OpLabels(c.C17Setup, c.Ops)
		for i, o := range c.Ops[:c.CancelAt] {
			r.leadDoneAt(i, len(c.Ops))
			r.applyOp(o)
			if v := r.settleOp(c.Ops, i); v != nil {
				r.finish()
				return *v
			}
			c17Sleep(o.PauseMS)
		}
		c17Sleep(c.CancelDelayMS)
		r.cancel()
		// the file keeps changing after cancel
		for i, o := range c.Ops[c.CancelAt:] {
			r.leadDoneAt(c.CancelAt+i, len(c.Ops))
			r.applyOp(o)
			c17Sleep(o.PauseMS)
		}
		r.leadDoneAt(len(c.Ops), len(c.Ops))
		v = r.release()
		r.w.close()
		if v != nil {
			return *v
		}
		busy := c.CancelAt > 0 && c.Ops[c.CancelAt-1].PauseMS == 0 && c.CancelDelayMS == 0
		if busy {
			r.label("cancel-while-busy")
		}
		if c.CancelAt < len(c.Ops) {
			r.label("ops-after-cancel")
		}
		return vrt.OK(busy && len(c.Ops) >= 2, r.labels...)
	})
}

func TestC17Release(t *testing.T) {
	vrt.Check(t, vrt.Prop[C17ReleaseCase]{
		ID: "C17", Name: "release",
		Rule: "same world as C17/converge (direct or Blank install - with blank-long the context SetSource was called with is still alive when the Dials context is cancelled -, with or without the fallback poll, rmdir included) with 1..8 operations; the context is cancelled after cancel_at operations (after a further 0/1/30 ms), without waiting for convergence, and the remaining operations run after the cancel; " +
			"oracle: WG.Wait() returns, then (polled) no goroutine with a sources/file or fsnotify frame remains and the number of anon_inode:inotify descriptors in /proc/self/fd is back to the count taken before Config; " +
			"at the 10 s deadline a violation needs the leftover goroutines parked in three dumps 300 ms apart, otherwise inconclusive. " +
			"non-trivial = at least 2 operations and the cancel follows an operation with no pause at all (watcher busy)",
		Assumptions: []string{"test functions of this package run sequentially, so goroutine and descriptor counts belong to the case"},
		Gen:         genC17Release, Run: runC17Release,
	})
}

// ------------------------------------------------------------------ harness self-check

// TestC17SelfCheck validates the harness's assumptions about its own
// documents with the real decoders (no watcher involved): every valid
// rendering decodes to the by-construction expectation, every malformed
// template is rejected, and an empty YAML file is an empty document.
func TestC17SelfCheck(t *testing.T) {
	dir := t.TempDir()
	name, lim := "abc", 7
	empty := ""
	docs := []C17Doc{{Counter: 3}, {Counter: 4, Name: &name}, {Counter: 5, Limit: &lim}, {Counter: 6, Name: &empty, Limit: &lim}}
	for _, dec := range []string{"json", "yaml"} {
		load := func(b []byte) (c17Config, error) {
			p := filepath.Join(dir, "f."+dec)
			if err := os.WriteFile(p, b, 0o644); err != nil {
				t.Fatal(err)
			}
			src, err := file.NewSource(p, c17Decoder(dec))
			if err != nil {
				t.Fatal(err)
			}
			def := c17Defaults()
			d, err := dials.Config(context.Background(), &def, src)
			if err != nil {
				return c17Config{}, err
			}
			return *d.View(), nil
		}
		for _, d := range docs {
			for st := 0; st < 4; st++ {
				d.Style = st
				got, err := load(d.render(dec))
				if err != nil || got != d.expect() {
					t.Errorf("%s style %d: %q decodes to %+v, %v; want %+v", dec, st, d.render(dec), got, err, d.expect())
				}
			}
		}
		for tm := 0; tm < c17BadTemplates; tm++ {
			if got, err := load(c17Bad(dec, tm, 1234)); err == nil {
				t.Errorf("%s malformed template %d: %q decodes to %+v", dec, tm, c17Bad(dec, tm, 1234), got)
			}
		}
	}
	// empty YAML
	p := filepath.Join(dir, "e.yaml")
	_ = os.WriteFile(p, nil, 0o644)
	src, _ := file.NewSource(p, c17Decoder("yaml"))
	def := c17Defaults()
	d, err := dials.Config(context.Background(), &def, src)
	if err != nil || *d.View() != c17Defaults() {
		t.Errorf("empty YAML: %v", err)
	}
}
