package ptext

import (
	"fmt"
	"reflect"
	"strings"
	"testing"

	"github.com/vimeo/dials/tagformat/caseconversion"
	"pgregory.net/rapid"

	"verifharness/internal/vrt"
)

// ---------------------------------------------------------------- C19 (a)
// decode(encode(words)) == words for the six matched schemes.

type c19Scheme struct {
	name string
	enc  caseconversion.EncodeCasingFunc
	dec  caseconversion.DecodeCasingFunc
}

var c19Schemes = []c19Scheme{
	{"UpperCamelCase", caseconversion.EncodeUpperCamelCase, caseconversion.DecodeUpperCamelCase},
	{"lowerCamelCase", caseconversion.EncodeLowerCamelCase, caseconversion.DecodeLowerCamelCase},
	{"lower_snake_case", caseconversion.EncodeLowerSnakeCase, caseconversion.DecodeLowerSnakeCase},
	{"UPPER_SNAKE_CASE", caseconversion.EncodeUpperSnakeCase, caseconversion.DecodeUpperSnakeCase},
	{"kebab-case", caseconversion.EncodeKebabCase, caseconversion.DecodeKebabCase},
	{"Case_Preserving_Snake", caseconversion.EncodeCasePreservingSnakeCase, caseconversion.DecodeCasePreservingSnakeCase},
}

type C19RoundTripCase struct {
	Words []string `json:"words"`
}

func genWord(t *rapid.T, label string) string {
	// [a-z][a-z0-9]*, small-biased length, digits fairly common
	n := rapid.IntRange(0, 9).Draw(t, label+"_len")
	var b strings.Builder
	b.WriteByte(byte('a' + rapid.IntRange(0, 25).Draw(t, label+"_c0")))
	for i := 0; i < n; i++ {
		if rapid.IntRange(0, 4).Draw(t, label+"_isdigit") == 0 {
			b.WriteByte(byte('0' + rapid.IntRange(0, 9).Draw(t, label+"_d")))
		} else {
			b.WriteByte(byte('a' + rapid.IntRange(0, 25).Draw(t, label+"_c")))
		}
	}
	return b.String()
}

func genC19RoundTrip(t *rapid.T) C19RoundTripCase {
	n := rapid.IntRange(1, 7).Draw(t, "nwords")
	ws := make([]string, n)
	for i := range ws {
		ws[i] = genWord(t, "w")
	}
	return C19RoundTripCase{Words: ws}
}

func runC19RoundTrip(c C19RoundTripCase) vrt.Verdict {
	if len(c.Words) == 0 {
		return vrt.Discardf("empty word list")
	}
	hasDigit, single := false, false
	for _, w := range c.Words {
		if strings.ContainsAny(w, "0123456789") {
			hasDigit = true
		}
		if len(w) == 1 {
			single = true
		}
	}
	// one word list is handed to every encoder in turn, as a caller that derives
	// several names (env, flag, file key) from the same decoded identifier does
	shared := append(caseconversion.DecodedIdentifier{}, c.Words...)
	for _, s := range c19Schemes {
		enc := s.enc(shared)
		if !reflect.DeepEqual([]string(shared), c.Words) {
			return vrt.Violationf("%s: the encoder modified the word list it was given: %q became %q (the next name derived from the same words is wrong)", s.name, c.Words, []string(shared))
		}
		// a program that tries several conventions on one name (or whose other
		// components decode the same string differently) calls the other schemes'
		// decoders first; whatever they answer must not colour this scheme's answer
		for _, o := range c19Schemes {
			if o.name != s.name {
				_, _ = o.dec(enc)
			}
		}
		got, err := s.dec(enc)
		if err != nil {
			return vrt.Violationf("%s: decode(encode(%q)=%q) failed (after the other schemes' decoders had been offered the same string): %v", s.name, c.Words, enc, err)
		}
		if !reflect.DeepEqual([]string(got), c.Words) {
			return vrt.Violationf("%s: decode(encode(%q)=%q) = %q", s.name, c.Words, enc, []string(got))
		}
	}
	labels := []string{fmt.Sprintf("words=%d", len(c.Words))}
	if hasDigit {
		labels = append(labels, "digit")
	}
	if single {
		labels = append(labels, "single-letter-word")
	}
	return vrt.OK(len(c.Words) >= 2 && (hasDigit || single), labels...)
}

func TestC19RoundTrip(t *testing.T) {
	vrt.Check(t, vrt.Prop[C19RoundTripCase]{
		ID: "C19", Name: "roundtrip", NoJournal: true,
		Rule: "word lists of 1..7 words over [a-z][a-z0-9]{0,9} drawn by rapid; for each of the six matched schemes decode(encode(ws)) must equal ws, the same list being handed to every encoder in turn (encoders are functions of their argument and leave it alone), and each encoded string being offered to the five OTHER schemes' decoders (verdicts ignored) before its own; " +
			"non-trivial = at least two words and some word contains a digit or is a single letter; distinct = distinct word lists",
		Assumptions: []string{"the empty word list is excluded (an identifier has at least one word; every decoder rejects the empty string)"},
		Gen:         genC19RoundTrip, Run: runC19RoundTrip,
	})
}

// ---------------------------------------------------------------- C19 (a')
// the same round trip while several goroutines convert at once: the encoders
// and decoders are package-level functions that a program calls from every
// source's goroutine (file watcher, env, flags), so their answer for one word
// list may not depend on what another goroutine is converting.

type C19ConcurrentCase struct {
	Lists [][]string `json:"lists"`
}

func genC19Concurrent(t *rapid.T) C19ConcurrentCase {
	n := rapid.IntRange(2, 6).Draw(t, "nlists")
	ls := make([][]string, n)
	for i := range ls {
		ls[i] = genC19RoundTrip(t).Words
	}
	return C19ConcurrentCase{Lists: ls}
}

func runC19Concurrent(c C19ConcurrentCase) vrt.Verdict {
	if len(c.Lists) < 2 {
		return vrt.Discardf("fewer than two word lists")
	}
	for _, l := range c.Lists {
		if len(l) == 0 {
			return vrt.Discardf("empty word list")
		}
	}
	const goroutines, rounds = 8, 40
	errs := make(chan string, goroutines)
	start := make(chan struct{})
	for g := 0; g < goroutines; g++ {
		go func(g int) {
			<-start
			for r := 0; r < rounds; r++ {
				for i := range c.Lists {
					ws := c.Lists[(i+g)%len(c.Lists)]
					for _, s := range c19Schemes {
						enc := s.enc(append(caseconversion.DecodedIdentifier{}, ws...))
						got, err := s.dec(enc)
						if err != nil {
							errs <- fmt.Sprintf("%s: with %d goroutines converting at once, decode(encode(%q)=%q) failed: %v", s.name, goroutines, ws, enc, err)
							return
						}
						if !reflect.DeepEqual([]string(got), ws) {
							errs <- fmt.Sprintf("%s: with %d goroutines converting at once, decode(encode(%q)=%q) = %q", s.name, goroutines, ws, enc, []string(got))
							return
						}
					}
				}
			}
			errs <- ""
		}(g)
	}
	close(start)
	bad := ""
	for g := 0; g < goroutines; g++ {
		if e := <-errs; e != "" && bad == "" {
			bad = e
		}
	}
	if bad != "" {
		return vrt.Violationf("%s", bad)
	}
	distinct := map[string]bool{}
	for _, l := range c.Lists {
		distinct[strings.Join(l, " ")] = true
	}
	return vrt.OK(len(distinct) >= 2, fmt.Sprintf("lists=%d", len(c.Lists)))
}

func TestC19Concurrent(t *testing.T) {
	vrt.Check(t, vrt.Prop[C19ConcurrentCase]{
		ID: "C19", Name: "concurrent", NoJournal: true,
		Rule: "2..6 word lists as in roundtrip; 8 goroutines each make 40 passes over the lists (each starting at another list) and, for each of the six matched schemes, require decode(encode(ws)) == ws while the others convert other lists; " +
			"a failure depends on the schedule, so the report carries the word list and the wrong answer itself; non-trivial = at least two distinct lists",
		Assumptions: []string{"a correct tree cannot fail this check whatever the schedule (the conversions are pure functions); a racy one may pass a given run"},
		Gen:         genC19Concurrent, Run: runC19Concurrent,
	})
}

// ---------------------------------------------------------------- C19 (b)
// Go identifiers assembled from capitalised words and initialisms.

// The list the golint project publishes (and dials documents that it uses);
// kept here, not read from the library, so the oracle is independent.
var c19Initialisms = []string{"ACL", "API", "ASCII", "CPU", "CSS", "DNS", "EOF", "GUID", "HTML", "HTTP", "HTTPS", "ID", "IP", "JSON", "LHS", "QPS", "RAM", "RHS", "RPC", "SLA", "SMTP", "SQL", "SSH", "TCP", "TLS", "TTL", "UDP", "UI", "UID", "UUID", "URI", "URL", "UTF8", "VM", "XML", "XMPP", "XSRF", "XSS"}

type C19Part struct {
	Text       string `json:"text"`       // as it appears in the identifier ("File", "JSON", "Port2")
	Initialism bool   `json:"initialism"` // from the initialism list
}

type C19GoIdentCase struct {
	Parts []C19Part `json:"parts"`
}

func genC19GoIdent(t *rapid.T) C19GoIdentCase {
	n := rapid.IntRange(1, 6).Draw(t, "nparts")
	ps := make([]C19Part, n)
	for i := range ps {
		switch k := rapid.IntRange(0, 9).Draw(t, "kind"); {
		case k < 5:
			ps[i] = C19Part{Text: rapid.SampledFrom(c19Initialisms).Draw(t, "init"), Initialism: true}
		default:
			// capitalised letter-only word of >= 3 letters; 1 in 5 carries a
			// trailing digit run ("Port2", "Sha256")
			l := rapid.IntRange(3, 7).Draw(t, "wl")
			var b strings.Builder
			b.WriteByte(byte('A' + rapid.IntRange(0, 25).Draw(t, "c0")))
			for j := 1; j < l; j++ {
				b.WriteByte(byte('a' + rapid.IntRange(0, 25).Draw(t, "c")))
			}
			if k == 9 {
				b.WriteString(rapid.SampledFrom([]string{"2", "64", "256", "0"}).Draw(t, "digits"))
			}
			ps[i] = C19Part{Text: b.String()}
		}
	}
	return C19GoIdentCase{Parts: ps}
}

// segmentations returns every way to write s as a concatenation of
// initialisms.
func c19Segmentations(s string) [][]string {
	if s == "" {
		return [][]string{{}}
	}
	var out [][]string
	for _, in := range c19Initialisms {
		if strings.HasPrefix(s, in) {
			for _, rest := range c19Segmentations(s[len(in):]) {
				out = append(out, append([]string{strings.ToLower(in)}, rest...))
			}
		}
	}
	return out
}

func runC19GoIdent(c C19GoIdentCase) vrt.Verdict {
	if len(c.Parts) == 0 {
		return vrt.Discardf("no parts")
	}
	var name strings.Builder
	var want []string
	adjInit, initAtEnd, digitWord := false, false, false
	for i, p := range c.Parts {
		if p.Text == "" {
			return vrt.Discardf("empty part")
		}
		name.WriteString(p.Text)
		want = append(want, strings.ToLower(p.Text))
		if p.Initialism && i > 0 && c.Parts[i-1].Initialism {
			adjInit = true
		}
		if !p.Initialism && strings.ContainsAny(p.Text, "0123456789") {
			digitWord = true
		}
	}
	initAtEnd = c.Parts[len(c.Parts)-1].Initialism
	id := name.String()
	got, err := caseconversion.DecodeGoCamelCase(id)
	if err != nil {
		return vrt.Violationf("DecodeGoCamelCase(%q) failed: %v", id, err)
	}
	// no-loss law: every character survives, in order
	if strings.Join(got, "") != strings.ToLower(id) {
		return vrt.KeyedViolationf("chars-dropped", "DecodeGoCamelCase(%q) = %q loses or reorders characters (parts %q)", id, []string(got), want)
	}
	// Expected word lists: the assembly list, where each maximal run of
	// adjacent initialisms may be re-segmented in any way that is itself a
	// concatenation of initialisms (normally there is exactly one).
	alts := [][]string{{}}
	ambiguous := false
	for i := 0; i < len(c.Parts); {
		if !c.Parts[i].Initialism {
			for k := range alts {
				alts[k] = append(alts[k], strings.ToLower(c.Parts[i].Text))
			}
			i++
			continue
		}
		j := i
		var run strings.Builder
		for j < len(c.Parts) && c.Parts[j].Initialism {
			run.WriteString(c.Parts[j].Text)
			j++
		}
		segs := c19Segmentations(run.String())
		if len(segs) > 1 {
			ambiguous = true
		}
		var next [][]string
		for _, a := range alts {
			for _, s := range segs {
				next = append(next, append(append([]string{}, a...), s...))
			}
		}
		alts = next
		i = j
	}
	ok := false
	for _, a := range alts {
		if reflect.DeepEqual(a, []string(got)) {
			ok = true
		}
	}
	if !ok {
		return vrt.KeyedViolationf("wrong-split", "DecodeGoCamelCase(%q) = %q, want %q", id, []string(got), want)
	}
	labels := []string{fmt.Sprintf("parts=%d", len(c.Parts))}
	if adjInit {
		labels = append(labels, "adjacent-initialisms")
	}
	if initAtEnd {
		labels = append(labels, "initialism-at-end")
	}
	if digitWord {
		labels = append(labels, "digit-word")
	}
	if ambiguous {
		labels = append(labels, "ambiguous-run")
	}
	return vrt.OK(len(c.Parts) >= 3 && (adjInit || initAtEnd), labels...)
}

func TestC19GoIdent(t *testing.T) {
	vrt.Check(t, vrt.Prop[C19GoIdentCase]{
		ID: "C19", Name: "goident", NoJournal: true,
		Rule: "Go identifiers assembled from 1..6 parts, each a golint initialism or a capitalised letter-only word of 3..7 letters (1 in 10 with a trailing digit run); " +
			"DecodeGoCamelCase must return exactly the lower-cased assembly list (a run of adjacent initialisms may be any segmentation of that run into initialisms) and never drop characters; " +
			"non-trivial = at least 3 parts with an initialism adjacent to another initialism or at the end; distinct = distinct part lists",
		Assumptions: []string{
			"capitalised vocabulary words have at least 3 letters: a 2-letter word after an initialism (JSONOk) is deliberately read as a plural-style suffix by the library",
			"the initialism list is golint's, as documented by the library",
		},
		Gen: genC19GoIdent, Run: runC19GoIdent,
	})
}
