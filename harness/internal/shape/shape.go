package shape

import (
	"encoding"
	"fmt"
	"reflect"
	"sort"
	"strings"
	"unsafe"
)

// Field describes one struct field of a generated config type.
type Field struct {
	Name   string   `json:"name"`
	Words  []string `json:"words,omitempty"` // lower-case words the name was built from
	Tag    string   `json:"tag,omitempty"`   // raw struct tag
	Kind   string   `json:"kind"`            // leaf | struct | pstruct | embed | pembed | skip
	Type   string   `json:"type,omitempty"`  // leaf / skip / embed: type expression (see ParseType)
	Skip   string   `json:"skip,omitempty"`  // kind skip: unexported | dash | chan | func
	Fields []Field  `json:"fields,omitempty"`
}

// Shape describes a config struct type.
type Shape struct {
	Fields []Field `json:"fields"`
}

// HarnessPkgPath is the package path given to unexported generated fields.
const HarnessPkgPath = "verifharness/internal/shape"

// Build constructs the reflect type described by s.
func (s Shape) Build() (t reflect.Type, err error) {
	defer func() {
		if r := recover(); r != nil {
			err = fmt.Errorf("reflect.StructOf: %v", r)
		}
	}()
	return buildStruct(s.Fields)
}

func buildStruct(fs []Field) (reflect.Type, error) {
	sfs := make([]reflect.StructField, 0, len(fs))
	for _, f := range fs {
		sf := reflect.StructField{Name: f.Name, Tag: reflect.StructTag(f.Tag)}
		switch f.Kind {
		case "leaf":
			t, err := ParseType(f.Type)
			if err != nil {
				return nil, err
			}
			sf.Type = t
		case "struct", "pstruct":
			t, err := buildStruct(f.Fields)
			if err != nil {
				return nil, err
			}
			if f.Kind == "pstruct" {
				t = reflect.PointerTo(t)
			}
			sf.Type = t
		case "embed", "pembed":
			t, err := ParseType(f.Type)
			if err != nil {
				return nil, err
			}
			sf.Name = t.Name()
			sf.Anonymous = true
			if f.Kind == "pembed" {
				t = reflect.PointerTo(t)
			}
			sf.Type = t
		case "skip":
			switch f.Skip {
			case "unexported":
				t, err := ParseType(f.Type)
				if err != nil {
					return nil, err
				}
				sf.Type = t
				sf.PkgPath = HarnessPkgPath
			case "dash":
				t, err := ParseType(f.Type)
				if err != nil {
					return nil, err
				}
				sf.Type = t
				if !strings.Contains(f.Tag, `dials:"-"`) {
					sf.Tag = reflect.StructTag(strings.TrimSpace(`dials:"-" ` + f.Tag))
				}
			case "chan":
				sf.Type = reflect.TypeOf((chan int)(nil))
			case "func":
				sf.Type = reflect.TypeOf((func() int)(nil))
			default:
				return nil, fmt.Errorf("unknown skip class %q", f.Skip)
			}
		default:
			return nil, fmt.Errorf("unknown field kind %q", f.Kind)
		}
		sfs = append(sfs, sf)
	}
	return reflect.StructOf(sfs), nil
}

// ---- classification of fields of ANY struct type, by the documented rules ----

// Class is how dials is documented to treat a field.
type Class int

const (
	// ClassLeaf is replaced as a whole by a layer that sets it.
	ClassLeaf Class = iota
	// ClassStruct is a nested struct merged field by field.
	ClassStruct
	// ClassPStruct is a pointer to a nested struct merged field by field.
	ClassPStruct
	// ClassSkip keeps its default (unexported, dials:"-", chan, func).
	ClassSkip
	// ClassIface is an interface-typed field (outside most properties' domain).
	ClassIface
)

var textUnmarshalerT = reflect.TypeOf((*encoding.TextUnmarshaler)(nil)).Elem()

// IsTextStruct reports whether t is a struct implementing
// encoding.TextUnmarshaler directly or through its pointer.
func IsTextStruct(t reflect.Type) bool {
	return t.Kind() == reflect.Struct && (t.Implements(textUnmarshalerT) || reflect.PointerTo(t).Implements(textUnmarshalerT))
}

// Classify applies the documented omission / nesting rules to a field.
func Classify(sf reflect.StructField) Class {
	if !sf.IsExported() {
		return ClassSkip
	}
	if v, ok := sf.Tag.Lookup("dials"); ok && v == "-" {
		return ClassSkip
	}
	switch sf.Type.Kind() {
	case reflect.Chan, reflect.Func:
		return ClassSkip
	case reflect.Interface:
		return ClassIface
	case reflect.Struct:
		if IsTextStruct(sf.Type) {
			return ClassLeaf
		}
		return ClassStruct
	case reflect.Pointer:
		if sf.Type.Elem().Kind() == reflect.Struct && !IsTextStruct(sf.Type.Elem()) {
			return ClassPStruct
		}
		return ClassLeaf
	}
	return ClassLeaf
}

// Node is one field reached by walking a config type.
type Node struct {
	Path   string // dotted Go field names from the root
	Names  []string
	SF     reflect.StructField
	Class  Class
	Type   reflect.Type // field type
	Depth  int
	Parent string // path of the enclosing struct field ("" at the root)
}

// Walk lists every field of t (a struct type) depth-first in declaration
// order, descending into nested structs and pointer structs.
func Walk(t reflect.Type) []Node {
	var out []Node
	walk(t, nil, &out)
	return out
}

func walk(t reflect.Type, prefix []string, out *[]Node) {
	for i := 0; i < t.NumField(); i++ {
		sf := t.Field(i)
		names := append(append([]string{}, prefix...), sf.Name)
		n := Node{Path: strings.Join(names, "."), Names: names, SF: sf, Class: Classify(sf), Type: sf.Type, Depth: len(prefix), Parent: strings.Join(prefix, ".")}
		*out = append(*out, n)
		switch n.Class {
		case ClassStruct:
			walk(sf.Type, names, out)
		case ClassPStruct:
			walk(sf.Type.Elem(), names, out)
		}
	}
}

// ---- case data: defaults and layers keyed by path ----

// Layer is one source's contribution.
type Layer struct {
	// Set maps a leaf path to the seed of the value this layer sets there.
	Set map[string]uint64 `json:"set,omitempty"`
	// Present lists struct / pointer-struct paths that are non-nil in this
	// layer even if no leaf below them is set.
	Present map[string]bool `json:"present,omitempty"`
	// ByPtr passes the layer value to the stacker as a pointer.
	ByPtr bool `json:"by_ptr,omitempty"`
}

// Data holds the defaults and layers for one case.
type Data struct {
	// Defaults maps leaf and skipped-field paths to value seeds (0 / absent =
	// zero value).
	Defaults map[string]uint64 `json:"defaults,omitempty"`
	// DefNil lists pointer-struct paths that are nil in the defaults.
	DefNil map[string]bool `json:"def_nil,omitempty"`
	Layers []Layer         `json:"layers"`
}

// Builder builds Go values for a case; it owns the identities of chan and
// func values so that rebuilding yields identical ones.
type Builder struct {
	T     reflect.Type
	Opts  ValueOpts
	chans map[string]reflect.Value
}

// NewBuilder returns a builder for config type t.
func NewBuilder(t reflect.Type, opts ValueOpts) *Builder {
	return &Builder{T: t, Opts: opts, chans: map[string]reflect.Value{}}
}

func (b *Builder) identity(path string, t reflect.Type, seed uint64) reflect.Value {
	if seed == 0 {
		return reflect.Zero(t)
	}
	if v, ok := b.chans[path]; ok {
		return v
	}
	var v reflect.Value
	switch t.Kind() {
	case reflect.Chan:
		v = reflect.MakeChan(t, 1)
	case reflect.Func:
		s := seed
		v = reflect.MakeFunc(t, func([]reflect.Value) []reflect.Value {
			out := make([]reflect.Value, t.NumOut())
			for i := range out {
				out[i] = reflect.Zero(t.Out(i))
			}
			_ = s
			return out
		})
	}
	b.chans[path] = v
	return v
}

func setField(f reflect.Value, v reflect.Value) {
	if f.CanSet() {
		f.Set(v)
		return
	}
	// unexported field of a harness-built value
	reflect.NewAt(f.Type(), unsafe.Pointer(f.UnsafeAddr())).Elem().Set(v)
}

// Defaults builds a fresh *T holding the case's default values.
func (b *Builder) Defaults(d Data) reflect.Value {
	p := reflect.New(b.T)
	b.fillDefaults(p.Elem(), nil, d)
	return p
}

func (b *Builder) fillDefaults(v reflect.Value, prefix []string, d Data) {
	t := v.Type()
	for i := 0; i < t.NumField(); i++ {
		sf := t.Field(i)
		names := append(append([]string{}, prefix...), sf.Name)
		path := strings.Join(names, ".")
		f := v.Field(i)
		switch Classify(sf) {
		case ClassLeaf, ClassIface:
			if sf.Type.Kind() == reflect.Interface {
				continue
			}
			setField(f, MakeValue(sf.Type, d.Defaults[path], b.Opts))
		case ClassSkip:
			switch sf.Type.Kind() {
			case reflect.Chan, reflect.Func:
				setField(f, b.identity(path, sf.Type, d.Defaults[path]))
			case reflect.Interface:
			default:
				setField(f, MakeValue(sf.Type, d.Defaults[path], b.Opts))
			}
		case ClassStruct:
			b.fillDefaults(f, names, d)
		case ClassPStruct:
			if d.DefNil[path] {
				continue
			}
			np := reflect.New(sf.Type.Elem())
			b.fillDefaults(np.Elem(), names, d)
			f.Set(np)
		}
	}
}

// layerPresent reports whether struct path p is non-nil in layer l.
func layerPresent(l Layer, p string) bool {
	if l.Present[p] {
		return true
	}
	pre := p + "."
	for k := range l.Set {
		if strings.HasPrefix(k, pre) {
			return true
		}
	}
	for k := range l.Present {
		if strings.HasPrefix(k, pre) {
			return true
		}
	}
	return false
}

// Layer builds a value of the pointerified type pt holding layer l.  Fields
// are located by NAME in pt, never by position.
func (b *Builder) Layer(pt reflect.Type, l Layer) (reflect.Value, error) {
	v := reflect.New(pt).Elem()
	if err := b.fillLayer(v, b.T, nil, l); err != nil {
		return reflect.Value{}, err
	}
	return v, nil
}

func (b *Builder) fillLayer(pv reflect.Value, t reflect.Type, prefix []string, l Layer) error {
	for i := 0; i < t.NumField(); i++ {
		sf := t.Field(i)
		names := append(append([]string{}, prefix...), sf.Name)
		path := strings.Join(names, ".")
		cl := Classify(sf)
		if cl == ClassSkip || cl == ClassIface {
			continue
		}
		pf := pv.FieldByName(sf.Name)
		if !pf.IsValid() {
			return fmt.Errorf("pointerified type %s has no field %q for path %s", pv.Type(), sf.Name, path)
		}
		switch cl {
		case ClassLeaf:
			seed, ok := l.Set[path]
			if !ok || seed == 0 {
				continue
			}
			val := MakeValue(sf.Type, seed, b.Opts)
			switch {
			case pf.Type() == sf.Type:
				pf.Set(val)
			case pf.Type() == reflect.PointerTo(sf.Type):
				np := reflect.New(sf.Type)
				np.Elem().Set(val)
				pf.Set(np)
			default:
				return fmt.Errorf("pointerified field %s has type %s, want %s or pointer to it", path, pf.Type(), sf.Type)
			}
		case ClassStruct, ClassPStruct:
			if !layerPresent(l, path) {
				continue
			}
			if pf.Kind() != reflect.Pointer || pf.Type().Elem().Kind() != reflect.Struct {
				return fmt.Errorf("pointerified field %s has type %s, want pointer to struct", path, pf.Type())
			}
			np := reflect.New(pf.Type().Elem())
			ct := sf.Type
			if cl == ClassPStruct {
				ct = ct.Elem()
			}
			if err := b.fillLayer(np.Elem(), ct, names, l); err != nil {
				return err
			}
			pf.Set(np)
		}
	}
	return nil
}

// Expected builds a fresh *T holding what stacking layers[0:n] over the
// defaults must produce according to the reference model: per leaf the last
// layer that sets it, else the default; pointer structs non-nil iff the default
// is or some layer has them present; skipped fields keep their default.
func (b *Builder) Expected(d Data) reflect.Value {
	p := reflect.New(b.T)
	b.fillExpected(p.Elem(), nil, d, false)
	return p
}

func (b *Builder) fillExpected(v reflect.Value, prefix []string, d Data, zeroDefaults bool) {
	t := v.Type()
	for i := 0; i < t.NumField(); i++ {
		sf := t.Field(i)
		names := append(append([]string{}, prefix...), sf.Name)
		path := strings.Join(names, ".")
		f := v.Field(i)
		defSeed := d.Defaults[path]
		if zeroDefaults {
			defSeed = 0
		}
		switch Classify(sf) {
		case ClassLeaf:
			seed := defSeed
			for _, l := range d.Layers {
				if s, ok := l.Set[path]; ok && s != 0 {
					seed = s
				}
			}
			setField(f, MakeValue(sf.Type, seed, b.Opts))
		case ClassIface:
		case ClassSkip:
			switch sf.Type.Kind() {
			case reflect.Chan, reflect.Func:
				setField(f, b.identity(path, sf.Type, defSeed))
			case reflect.Interface:
			default:
				setField(f, MakeValue(sf.Type, defSeed, b.Opts))
			}
		case ClassStruct:
			b.fillExpected(f, names, d, zeroDefaults)
		case ClassPStruct:
			defNil := zeroDefaults || d.DefNil[path]
			present := false
			for _, l := range d.Layers {
				if layerPresent(l, path) {
					present = true
				}
			}
			if defNil && !present {
				continue
			}
			np := reflect.New(sf.Type.Elem())
			b.fillExpected(np.Elem(), names, d, defNil)
			f.Set(np)
		}
	}
}

// SortedKeys returns the keys of a seed map in sorted order.
func SortedKeys[V any](m map[string]V) []string {
	ks := make([]string, 0, len(m))
	for k := range m {
		ks = append(ks, k)
	}
	sort.Strings(ks)
	return ks
}

// FieldByPath follows dotted field names from a struct value, dereferencing
// pointers on the way; it returns the zero Value if a nil pointer is met or a
// name is missing.
func FieldByPath(v reflect.Value, path string) reflect.Value {
	for _, name := range strings.Split(path, ".") {
		for v.Kind() == reflect.Pointer {
			if v.IsNil() {
				return reflect.Value{}
			}
			v = v.Elem()
		}
		if v.Kind() != reflect.Struct {
			return reflect.Value{}
		}
		v = v.FieldByName(name)
		if !v.IsValid() {
			return v
		}
	}
	return v
}
