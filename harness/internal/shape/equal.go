package shape

import (
	"fmt"
	"math"
	"reflect"
	"time"
	"unsafe"
)

// Diff compares two values of the same type structurally and returns "" when
// they are equal, else a description of the first difference.  Unlike
// reflect.DeepEqual: func and chan values compare by identity, NaN equals NaN
// (bitwise float comparison), nil and empty slices/maps differ, unexported
// fields are compared too, and pointer cycles are handled.
func Diff(a, b reflect.Value) string {
	return diff(a, b, "", map[[2]unsafe.Pointer]bool{})
}

func readable(v reflect.Value) reflect.Value {
	if v.CanInterface() || !v.CanAddr() {
		return v
	}
	return reflect.NewAt(v.Type(), unsafe.Pointer(v.UnsafeAddr())).Elem()
}

func diff(a, b reflect.Value, path string, seen map[[2]unsafe.Pointer]bool) string {
	if a.IsValid() != b.IsValid() {
		return fmt.Sprintf("%s: validity differs", path)
	}
	if !a.IsValid() {
		return ""
	}
	if a.Type() != b.Type() {
		return fmt.Sprintf("%s: type %s vs %s", path, a.Type(), b.Type())
	}
	a, b = readable(a), readable(b)
	if a.Type() == reflect.TypeOf(time.Time{}) && a.CanInterface() && b.CanInterface() {
		ta, tb := a.Interface().(time.Time), b.Interface().(time.Time)
		if !ta.Equal(tb) || ta.Location().String() != tb.Location().String() {
			return fmt.Sprintf("%s: time %v vs %v", path, ta, tb)
		}
		return ""
	}
	switch a.Kind() {
	case reflect.Bool:
		if a.Bool() != b.Bool() {
			return fmt.Sprintf("%s: %v vs %v", path, a.Bool(), b.Bool())
		}
	case reflect.Int, reflect.Int8, reflect.Int16, reflect.Int32, reflect.Int64:
		if a.Int() != b.Int() {
			return fmt.Sprintf("%s: %d vs %d", path, a.Int(), b.Int())
		}
	case reflect.Uint, reflect.Uint8, reflect.Uint16, reflect.Uint32, reflect.Uint64, reflect.Uintptr:
		if a.Uint() != b.Uint() {
			return fmt.Sprintf("%s: %d vs %d", path, a.Uint(), b.Uint())
		}
	case reflect.Float32, reflect.Float64:
		if math.Float64bits(a.Float()) != math.Float64bits(b.Float()) {
			return fmt.Sprintf("%s: %v vs %v", path, a.Float(), b.Float())
		}
	case reflect.Complex64, reflect.Complex128:
		ca, cb := a.Complex(), b.Complex()
		if math.Float64bits(real(ca)) != math.Float64bits(real(cb)) || math.Float64bits(imag(ca)) != math.Float64bits(imag(cb)) {
			return fmt.Sprintf("%s: %v vs %v", path, ca, cb)
		}
	case reflect.String:
		if a.String() != b.String() {
			return fmt.Sprintf("%s: %q vs %q", path, a.String(), b.String())
		}
	case reflect.Chan, reflect.Func, reflect.UnsafePointer:
		if a.Pointer() != b.Pointer() {
			return fmt.Sprintf("%s: %s identity differs (%#x vs %#x)", path, a.Kind(), a.Pointer(), b.Pointer())
		}
	case reflect.Pointer:
		if a.IsNil() != b.IsNil() {
			return fmt.Sprintf("%s: nil=%v vs nil=%v", path, a.IsNil(), b.IsNil())
		}
		if a.IsNil() {
			return ""
		}
		k := [2]unsafe.Pointer{a.UnsafePointer(), b.UnsafePointer()}
		if seen[k] {
			return ""
		}
		seen[k] = true
		return diff(a.Elem(), b.Elem(), path+"*", seen)
	case reflect.Interface:
		if a.IsNil() != b.IsNil() {
			return fmt.Sprintf("%s: nil=%v vs nil=%v", path, a.IsNil(), b.IsNil())
		}
		if a.IsNil() {
			return ""
		}
		return diff(a.Elem(), b.Elem(), path+"(iface)", seen)
	case reflect.Slice:
		if a.IsNil() != b.IsNil() {
			return fmt.Sprintf("%s: nil=%v vs nil=%v (len %d vs %d)", path, a.IsNil(), b.IsNil(), a.Len(), b.Len())
		}
		if a.Len() != b.Len() {
			return fmt.Sprintf("%s: len %d vs %d", path, a.Len(), b.Len())
		}
		for i := 0; i < a.Len(); i++ {
			if d := diff(a.Index(i), b.Index(i), fmt.Sprintf("%s[%d]", path, i), seen); d != "" {
				return d
			}
		}
	case reflect.Array:
		for i := 0; i < a.Len(); i++ {
			if d := diff(a.Index(i), b.Index(i), fmt.Sprintf("%s[%d]", path, i), seen); d != "" {
				return d
			}
		}
	case reflect.Map:
		if a.IsNil() != b.IsNil() {
			return fmt.Sprintf("%s: nil=%v vs nil=%v (len %d vs %d)", path, a.IsNil(), b.IsNil(), a.Len(), b.Len())
		}
		if a.Len() != b.Len() {
			return fmt.Sprintf("%s: map len %d vs %d", path, a.Len(), b.Len())
		}
		k := [2]unsafe.Pointer{a.UnsafePointer(), b.UnsafePointer()}
		if seen[k] {
			return ""
		}
		seen[k] = true
		it := a.MapRange()
		for it.Next() {
			bv := b.MapIndex(it.Key())
			if !bv.IsValid() && a.Type().Key().Kind() != reflect.String {
				// keys that hold pointers are equal by content, not by identity
				bit := b.MapRange()
				for bit.Next() {
					if diff(it.Key(), bit.Key(), path+"[key]", map[[2]unsafe.Pointer]bool{}) == "" {
						bv = bit.Value()
						break
					}
				}
			}
			if !bv.IsValid() {
				return fmt.Sprintf("%s: key %v missing", path, it.Key())
			}
			if d := diff(it.Value(), bv, fmt.Sprintf("%s[%v]", path, it.Key()), seen); d != "" {
				return d
			}
		}
	case reflect.Struct:
		for i := 0; i < a.NumField(); i++ {
			if d := diff(a.Field(i), b.Field(i), path+"."+a.Type().Field(i).Name, seen); d != "" {
				return d
			}
		}
	default:
		return fmt.Sprintf("%s: unsupported kind %s", path, a.Kind())
	}
	return ""
}
