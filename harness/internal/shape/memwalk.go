package shape

import (
	"fmt"
	"reflect"
	"sort"
	"unsafe"
)

// Region is a piece of mutable memory reachable from a value.
type Region struct {
	Lo, Hi uintptr // [Lo, Hi)
	What   string
}

// Regions collects the mutable memory reachable from v through exported
// fields: pointees, map headers and slice backing arrays up to capacity.
// Zero-sized objects and nil references are excluded; chan and func values are
// excluded (the copier documents identity for them).
func Regions(v reflect.Value) []Region {
	var out []Region
	seen := map[uintptr]bool{}
	regions(v, "", &out, seen)
	sort.Slice(out, func(i, j int) bool { return out[i].Lo < out[j].Lo })
	return out
}

func regions(v reflect.Value, path string, out *[]Region, seen map[uintptr]bool) {
	switch v.Kind() {
	case reflect.Pointer:
		if v.IsNil() {
			return
		}
		p := v.Pointer()
		sz := v.Type().Elem().Size()
		if sz > 0 {
			if seen[p] {
				return
			}
			seen[p] = true
			*out = append(*out, Region{p, p + sz, path + "*"})
		}
		regions(v.Elem(), path+"*", out, seen)
	case reflect.Interface:
		if v.IsNil() {
			return
		}
		regions(v.Elem(), path+"(iface)", out, seen)
	case reflect.Map:
		if v.IsNil() {
			return
		}
		p := v.Pointer()
		if seen[p] {
			return
		}
		seen[p] = true
		*out = append(*out, Region{p, p + 8, path + "(map)"})
		it := v.MapRange()
		for it.Next() {
			regions(it.Key(), fmt.Sprintf("%s[key %v]", path, it.Key()), out, seen)
			regions(it.Value(), fmt.Sprintf("%s[%v]", path, it.Key()), out, seen)
		}
	case reflect.Slice:
		if v.IsNil() {
			return
		}
		sz := v.Type().Elem().Size() * uintptr(v.Cap())
		p := v.Pointer()
		if sz > 0 {
			*out = append(*out, Region{p, p + sz, path + "(slice)"})
		}
		full := v.Slice(0, v.Cap())
		for i := 0; i < full.Len(); i++ {
			regions(full.Index(i), fmt.Sprintf("%s[%d]", path, i), out, seen)
		}
	case reflect.Array:
		for i := 0; i < v.Len(); i++ {
			regions(v.Index(i), fmt.Sprintf("%s[%d]", path, i), out, seen)
		}
	case reflect.Struct:
		t := v.Type()
		for i := 0; i < t.NumField(); i++ {
			if !t.Field(i).IsExported() {
				continue
			}
			regions(v.Field(i), path+"."+t.Field(i).Name, out, seen)
		}
	}
}

// Overlap returns a description of the first overlap between two sorted
// region lists, or "".
func Overlap(a, b []Region) string {
	i, j := 0, 0
	for i < len(a) && j < len(b) {
		if a[i].Hi <= b[j].Lo {
			i++
			continue
		}
		if b[j].Hi <= a[i].Lo {
			j++
			continue
		}
		return fmt.Sprintf("%s [%#x,%#x) overlaps %s [%#x,%#x)", a[i].What, a[i].Lo, a[i].Hi, b[j].What, b[j].Lo, b[j].Hi)
	}
	return ""
}

// Scribble overwrites every mutable location reachable from v through
// exported fields: pointees, slice elements up to capacity, map entries (each
// value replaced by a scribbled copy, one key deleted, one key added).  v
// itself must be addressable (e.g. the Elem of a pointer).
func Scribble(v reflect.Value) {
	scribble(v, map[uintptr]bool{})
}

func scribble(v reflect.Value, seen map[uintptr]bool) {
	if v.Type() == reflect.TypeOf(struct{}{}) {
		return
	}
	switch v.Kind() {
	case reflect.Bool:
		if v.CanSet() {
			v.SetBool(!v.Bool())
		}
	case reflect.Int, reflect.Int8, reflect.Int16, reflect.Int32, reflect.Int64:
		if v.CanSet() {
			v.SetInt(v.Int() ^ 0x55)
		}
	case reflect.Uint, reflect.Uint8, reflect.Uint16, reflect.Uint32, reflect.Uint64, reflect.Uintptr:
		if v.CanSet() {
			v.SetUint(v.Uint() ^ 0x55)
		}
	case reflect.Float32, reflect.Float64:
		if v.CanSet() {
			v.SetFloat(12345.5)
		}
	case reflect.Complex64, reflect.Complex128:
		if v.CanSet() {
			v.SetComplex(complex(7, 9))
		}
	case reflect.String:
		if v.CanSet() {
			v.SetString(v.String() + "~scribbled")
		}
	case reflect.Pointer:
		if v.IsNil() {
			return
		}
		if seen[v.Pointer()] {
			return
		}
		seen[v.Pointer()] = true
		scribble(v.Elem(), seen)
	case reflect.Interface:
		// payloads are not addressable; nothing to scribble in place
	case reflect.Slice:
		if v.IsNil() {
			return
		}
		full := v.Slice(0, v.Cap())
		for i := 0; i < full.Len(); i++ {
			scribble(full.Index(i), seen)
		}
	case reflect.Array:
		for i := 0; i < v.Len(); i++ {
			scribble(v.Index(i), seen)
		}
	case reflect.Map:
		if v.IsNil() {
			return
		}
		if seen[v.Pointer()] {
			return
		}
		seen[v.Pointer()] = true
		keys := v.MapKeys()
		sort.Slice(keys, func(i, j int) bool { return fmt.Sprint(keys[i]) < fmt.Sprint(keys[j]) })
		for i, k := range keys {
			if v.Type().Key().Kind() != reflect.String {
				// what a key references (pointer fields of struct keys, pointer
				// elements of array keys, interface payloads) is memory too
				kc := reflect.New(v.Type().Key()).Elem()
				kc.Set(k)
				scribbleThroughOnly(kc, seen)
			}
			if i == 0 {
				// scribble what the old value references, then delete the key
				old := reflect.New(v.Type().Elem()).Elem()
				old.Set(v.MapIndex(k))
				scribble(old, seen)
				v.SetMapIndex(k, reflect.Value{})
				continue
			}
			nv := reflect.New(v.Type().Elem()).Elem()
			nv.Set(v.MapIndex(k))
			scribble(nv, seen)
			v.SetMapIndex(k, nv)
		}
		if v.Type().Key().Kind() == reflect.String {
			nk := reflect.New(v.Type().Key()).Elem()
			nk.SetString("~scribbled-key")
			v.SetMapIndex(nk, reflect.Zero(v.Type().Elem()))
		}
	case reflect.Struct:
		t := v.Type()
		for i := 0; i < t.NumField(); i++ {
			if !t.Field(i).IsExported() {
				continue
			}
			scribble(v.Field(i), seen)
		}
	}
}

// scribbleThroughOnly overwrites what v REFERENCES (pointees, map contents,
// slice elements) but leaves v's own pointers and scalars alone, so a map key
// stays the same key.
func scribbleThroughOnly(v reflect.Value, seen map[uintptr]bool) {
	switch v.Kind() {
	case reflect.Pointer:
		if !v.IsNil() {
			scribble(v.Elem(), seen)
		}
	case reflect.Interface:
		if !v.IsNil() {
			scribbleThroughOnly(v.Elem(), seen)
		}
	case reflect.Struct:
		for i := 0; i < v.NumField(); i++ {
			scribbleThroughOnly(v.Field(i), seen)
		}
	case reflect.Array:
		for i := 0; i < v.Len(); i++ {
			scribbleThroughOnly(v.Index(i), seen)
		}
	}
}

// PtrOf returns the address of an addressable value (for debugging output).
func PtrOf(v reflect.Value) unsafe.Pointer { return unsafe.Pointer(v.UnsafeAddr()) }
