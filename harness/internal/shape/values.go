package shape

import (
	"fmt"
	"math"
	"net"
	"reflect"
	"time"
)

type sm64 struct{ s uint64 }

func (r *sm64) next() uint64 {
	r.s += 0x9e3779b97f4a7c15
	z := r.s
	z = (z ^ (z >> 30)) * 0xbf58476d1ce4e5b9
	z = (z ^ (z >> 27)) * 0x94d049bb133111eb
	return z ^ (z >> 31)
}

var hostileStrings = []string{
	"", " ", "a,b", "k:v", `"quoted"`, `back\slash`, "new\nline", "tab\t", "ünïcödé", "日本語", "'single'", "a=b", "x y z", "#hash", "{brace}", "[bracket]", "null", "true", "0", "-1",
}

// ValueOpts tunes MakeValue.
type ValueOpts struct {
	// Plain restricts values to ones every text format can spell: finite
	// floats, no hostile strings, 63-bit integers, UTC times with second
	// precision.
	Plain bool
	// NilElems leaves about a third of the elements / map values of
	// collections whose element type is nil-able (pointer, slice, map) nil.
	NilElems bool
}

func nilElem(t reflect.Type, r *sm64, o ValueOpts) bool {
	if !o.NilElems {
		return false
	}
	switch t.Kind() {
	case reflect.Pointer, reflect.Slice, reflect.Map:
		return r.next()%3 == 0
	}
	return false
}

// MakeValue deterministically builds a value of type t from seed. Seed 0 is
// the zero value of t (nil for nil-able kinds); every other seed yields a
// non-nil value.  The mapping is a pure function of (t, seed, opts).
func MakeValue(t reflect.Type, seed uint64, opts ValueOpts) reflect.Value {
	if seed == 0 {
		return reflect.Zero(t)
	}
	r := &sm64{s: seed}
	return makeValue(t, r, opts, 0)
}

func makeValue(t reflect.Type, r *sm64, o ValueOpts, depth int) reflect.Value {
	v := reflect.New(t).Elem()
	switch t {
	case reflect.TypeOf(time.Time{}):
		sec := int64(r.next()%4000000000) - 1000000000
		nsec := int64(r.next() % 1000000000)
		if o.Plain {
			nsec = 0
		}
		v.Set(reflect.ValueOf(time.Unix(sec, nsec).UTC()))
		return v
	case reflect.TypeOf(net.IP{}):
		n := 4
		if r.next()%2 == 0 {
			n = 16
		}
		ip := make(net.IP, n)
		for i := range ip {
			ip[i] = byte(r.next())
		}
		if n == 16 {
			ip[0] = 0x20 // keep it from looking like a v4-mapped address
			ip[1] = 0x01
		}
		v.Set(reflect.ValueOf(ip))
		return v
	case reflect.TypeOf(Color("")):
		v.SetString(fmt.Sprintf("#%06x", r.next()&0xffffff))
		return v
	case reflect.TypeOf(Tree{}):
		// mostly shallow; one value in six is a chain of 35..120 levels
		levels := int(r.next() % 3)
		if r.next()%6 == 0 {
			levels = 35 + int(r.next()%86)
		}
		mk := func(i int) Tree {
			return Tree{Label: fmt.Sprintf("t%d-%x", i, r.next()&0xff), Vals: []int{i, int(r.next() % 100)}, M: map[string]int{"lvl": i}}
		}
		root := mk(0)
		cur := &root
		for i := 1; i <= levels; i++ {
			cur.Sub = []Tree{mk(i)}
			if i%7 == 0 {
				cur.Sub = append(cur.Sub, mk(-i)) // a sibling leaf now and then
			}
			cur = &cur.Sub[0]
		}
		v.Set(reflect.ValueOf(root))
		return v
	case reflect.TypeOf(Stamp{}):
		v.Set(reflect.ValueOf(Stamp{Major: int(r.next() % 100), Minor: int(r.next() % 1000), Note: fmt.Sprintf("n%x", r.next()&0xffff)}))
		return v
	}
	switch t.Kind() {
	case reflect.Bool:
		v.SetBool(r.next()%2 == 0)
	case reflect.Int, reflect.Int8, reflect.Int16, reflect.Int32, reflect.Int64:
		bits := t.Bits()
		min := int64(-1) << (bits - 1)
		max := -(min + 1)
		var x int64
		switch r.next() % 10 {
		case 0:
			x = min
		case 1:
			x = max
		case 2:
			x = []int64{0, 1, -1}[r.next()%3]
		default:
			x = int64(r.next()) >> (64 - bits)
		}
		v.SetInt(x)
	case reflect.Uint, reflect.Uint8, reflect.Uint16, reflect.Uint32, reflect.Uint64, reflect.Uintptr:
		bits := t.Bits()
		var max uint64 = math.MaxUint64 >> (64 - bits)
		if o.Plain && bits == 64 {
			max = math.MaxInt64
		}
		var x uint64
		switch r.next() % 10 {
		case 0:
			x = max
		case 1:
			x = []uint64{0, 1}[r.next()%2]
		default:
			x = r.next() & max
		}
		v.SetUint(x)
	case reflect.Float32, reflect.Float64:
		var f float64
		c := r.next() % 12
		if o.Plain && c < 3 {
			c = 5
		}
		switch c {
		case 0:
			f = math.Inf(1)
		case 1:
			f = math.Inf(-1)
		case 2:
			f = math.NaN()
		case 3:
			f = 0
		case 4:
			f = -1.5
		default:
			f = float64(int64(r.next()>>20)-(1<<43)) / 1024
		}
		if t.Kind() == reflect.Float32 {
			f = float64(float32(f))
		}
		v.SetFloat(f)
	case reflect.Complex64, reflect.Complex128:
		re := float64(int64(r.next()>>40)-(1<<23)) / 16
		im := float64(int64(r.next()>>40)-(1<<23)) / 16
		v.SetComplex(complex(re, im))
	case reflect.String:
		if !o.Plain && r.next()%4 == 0 {
			v.SetString(hostileStrings[r.next()%uint64(len(hostileStrings))])
		} else {
			v.SetString(fmt.Sprintf("s%x", r.next()&0xffffffff))
		}
	case reflect.Slice:
		n := int(r.next() % 4)
		extra := 0
		if r.next()%3 == 0 {
			extra = int(r.next()%3) + 1
		}
		s := reflect.MakeSlice(t, n, n+extra)
		for i := 0; i < n; i++ {
			if nilElem(t.Elem(), r, o) {
				continue
			}
			s.Index(i).Set(makeValue(t.Elem(), r, o, depth+1))
		}
		v.Set(s)
	case reflect.Array:
		for i := 0; i < t.Len(); i++ {
			if nilElem(t.Elem(), r, o) {
				continue
			}
			v.Index(i).Set(makeValue(t.Elem(), r, o, depth+1))
		}
	case reflect.Map:
		n := int(r.next() % 4)
		m := reflect.MakeMapWithSize(t, n)
		for i := 0; i < n; i++ {
			k := reflect.New(t.Key()).Elem()
			if t.Key().Kind() == reflect.String {
				k.SetString(fmt.Sprintf("k%d_%x", i, r.next()&0xff))
			} else {
				k.Set(makeValue(t.Key(), r, o, depth+1))
				// keys that hold pointers are distinct by identity; make them
				// distinct by CONTENT too, so that comparers can pair them up
				uniq := int64(i+1) + 10*int64(r.next()%1000)
				switch t.Key() {
				case reflect.TypeOf(PKey{}):
					k.FieldByName("N").SetInt(uniq)
				case reflect.TypeOf([1]*int{}):
					x := int(uniq)
					k.Index(0).Set(reflect.ValueOf(&x))
				}
			}
			if nilElem(t.Elem(), r, o) {
				m.SetMapIndex(k, reflect.Zero(t.Elem())) // the key is present, its value is nil
				continue
			}
			m.SetMapIndex(k, makeValue(t.Elem(), r, o, depth+1))
		}
		v.Set(m)
	case reflect.Pointer:
		p := reflect.New(t.Elem())
		p.Elem().Set(makeValue(t.Elem(), r, o, depth+1))
		v.Set(p)
	case reflect.Struct:
		for i := 0; i < t.NumField(); i++ {
			f := t.Field(i)
			if !f.IsExported() {
				continue
			}
			switch f.Type.Kind() {
			case reflect.Chan, reflect.Func, reflect.Interface:
				continue
			}
			if depth > 4 {
				continue
			}
			if depth > 0 && nilElem(f.Type, r, o) {
				continue // a struct VALUE whose nil-able field is nil (nothing "unset" about it)
			}
			v.Field(i).Set(makeValue(f.Type, r, o, depth+1))
		}
	default:
		panic(fmt.Sprintf("MakeValue: unsupported kind %s", t.Kind()))
	}
	return v
}
