package shape

import (
	"fmt"
	"strings"

	"pgregory.net/rapid"
)

// Vocabulary of lower-case words (>= 3 letters, letters only) and initialisms
// that field names are assembled from.  Names decode unambiguously with the
// documented Go-identifier rules, so name-derivation oracles know the words by
// construction.
var vocabWords = []string{"alpha", "bravo", "cache", "delta", "echo", "flush", "gamma", "host", "index", "jitter", "key", "limit", "mode", "node", "offset", "port", "queue", "retry", "size", "token", "user", "value", "window", "zone", "path", "file", "name", "rate", "depth", "count"}
var vocabInitialisms = []string{"api", "cpu", "dns", "html", "http", "https", "id", "ip", "json", "rpc", "sql", "tcp", "tls", "ttl", "udp", "uid", "uri", "url", "uuid", "xml"}

// AllLeafTypes is the full leaf grammar used by the core properties.
var AllLeafTypes = []string{
	"bool", "int", "int8", "int16", "int32", "int64", "uint", "uint8", "uint16", "uint32", "uint64", "uintptr",
	"float32", "float64", "complex64", "complex128", "string", "time.Duration",
	"time.Time", "net.IP", "Stamp", "Color",
	"[]string", "[]int", "[]int8", "[]uint16", "[]float64", "[]bool", "[]time.Duration", "[][]int", "[]Pt", "[]Rec", "[]*int", "[]map[string]int",
	"[3]int", "[2]string", "[2]Pt", "[1]Rec", "[2]*int", "[2][]int",
	"map[string]int", "map[string]string", "map[string]struct{}", "map[string][]string", "map[string]Pt", "map[string]Rec", "map[string]*int", "map[string]map[string]int",
	"*int", "*string", "**int", "*[]int", "*time.Time", "*Stamp", "*map[string]int", "*[2]int",
	"Level", "Count", "Ratio", "Flag", "Name", "Timeout", "Names", "Nums", "Limits", "Labels",
}

// Profile restricts the shape grammar for a property.
type Profile struct {
	LeafTypes   []string
	SkipClasses []string // subset of unexported, dash, chan, func
	Nested      []string // subset of struct, pstruct, embed, pembed
	EmbedTypes  []string // named struct types usable for embedding
	MaxDepth    int
	MaxFields   int
	MinFields   int
	// AllowEmptyStructs lets nested structs have no fields at all.
	AllowEmptyStructs bool
	// Tagger, if set, may set f.Tag for a generated field (depth 0 = root).
	Tagger func(t *rapid.T, f *Field, depth int)
}

// FullProfile is the whole grammar.
func FullProfile() Profile {
	return Profile{
		LeafTypes:   AllLeafTypes,
		SkipClasses: []string{"unexported", "dash", "chan", "func"},
		Nested:      []string{"struct", "pstruct", "embed", "pembed"},
		EmbedTypes:  []string{"EmbA", "EmbB", "EmbC"},
		MaxDepth:    3, MaxFields: 8, MinFields: 1,
	}
}

func capitalise(w string, initialism bool) string {
	if initialism {
		return strings.ToUpper(w)
	}
	return strings.ToUpper(w[:1]) + w[1:]
}

// GenName draws a field name (and its words) that is not in used.
func GenName(t *rapid.T, used map[string]bool) (string, []string) {
	for attempt := 0; ; attempt++ {
		n := rapid.IntRange(1, 3).Draw(t, "name_parts")
		var words []string
		var b strings.Builder
		prevInit := false
		for i := 0; i < n; i++ {
			isInit := rapid.IntRange(0, 3).Draw(t, "name_is_initialism") == 0
			if isInit && prevInit {
				// adjacent initialisms are legal but (for a few pairs)
				// ambiguous to split; names avoid them, C19 covers them.
				isInit = false
			}
			var w string
			if isInit {
				w = rapid.SampledFrom(vocabInitialisms).Draw(t, "name_init")
			} else {
				w = rapid.SampledFrom(vocabWords).Draw(t, "name_word")
			}
			words = append(words, w)
			b.WriteString(capitalise(w, isInit))
			prevInit = isInit
		}
		name := b.String()
		if attempt > 4 {
			// make it unique deterministically
			for i := 0; used[name]; i++ {
				w := vocabWords[i%len(vocabWords)]
				words = append(words, w)
				name += capitalise(w, false)
			}
		}
		if !used[name] {
			used[name] = true
			return name, words
		}
	}
}

// Gen draws a shape from the profile.
func Gen(t *rapid.T, p Profile) Shape {
	return Shape{Fields: genFields(t, p, 0)}
}

func genFields(t *rapid.T, p Profile, depth int) []Field {
	min := p.MinFields
	if depth > 0 && min < 1 {
		min = 0
	}
	if depth > 0 && p.AllowEmptyStructs {
		// nested structs may be empty (struct{}): still a retained field
		min = 0
	}
	n := rapid.IntRange(min, p.MaxFields).Draw(t, "nfields")
	used := map[string]bool{}
	usedEmbed := map[string]bool{}
	var fs []Field
	for i := 0; i < n; i++ {
		kind := rapid.IntRange(0, 99).Draw(t, "fieldkind")
		switch {
		case kind < 15 && len(p.SkipClasses) > 0:
			f := Field{Kind: "skip", Skip: rapid.SampledFrom(p.SkipClasses).Draw(t, "skipclass")}
			name, words := GenName(t, used)
			f.Name, f.Words = name, words
			switch f.Skip {
			case "unexported":
				f.Name = strings.ToLower(name[:1]) + name[1:]
				f.Type = rapid.SampledFrom([]string{"int", "string", "*int", "map[string]int", "[]string"}).Draw(t, "skiptype")
			case "dash":
				f.Type = rapid.SampledFrom(p.LeafTypes).Draw(t, "skiptype")
				f.Tag = `dials:"-"`
			}
			fs = append(fs, f)
		case kind < 35 && len(p.Nested) > 0 && depth < p.MaxDepth:
			nk := rapid.SampledFrom(p.Nested).Draw(t, "nestedkind")
			switch nk {
			case "struct", "pstruct":
				f := Field{Kind: nk}
				f.Name, f.Words = GenName(t, used)
				f.Fields = genFields(t, p, depth+1)
				if p.Tagger != nil {
					p.Tagger(t, &f, depth)
				}
				fs = append(fs, f)
			case "embed", "pembed":
				var avail []string
				for _, e := range p.EmbedTypes {
					if !usedEmbed[e] {
						avail = append(avail, e)
					}
				}
				if len(avail) == 0 {
					continue
				}
				et := rapid.SampledFrom(avail).Draw(t, "embedtype")
				usedEmbed[et] = true
				used[et] = true
				f := Field{Kind: nk, Type: et, Name: et}
				if p.Tagger != nil {
					p.Tagger(t, &f, depth)
				}
				fs = append(fs, f)
			}
		default:
			f := Field{Kind: "leaf", Type: rapid.SampledFrom(p.LeafTypes).Draw(t, "leaftype")}
			f.Name, f.Words = GenName(t, used)
			if p.Tagger != nil {
				p.Tagger(t, &f, depth)
			}
			fs = append(fs, f)
		}
	}
	// an embedded type's promoted names must not collide with siblings
	return fs
}

// GenData draws defaults and layers for config type described by nodes.
func GenData(t *rapid.T, nodes []Node, maxLayers int, setPercent int) Data {
	d := Data{Defaults: map[string]uint64{}, DefNil: map[string]bool{}}
	nilAncestor := func(n Node) bool {
		for p := range d.DefNil {
			if strings.HasPrefix(n.Path, p+".") {
				return true
			}
		}
		return false
	}
	for _, n := range nodes {
		if nilAncestor(n) {
			continue
		}
		switch n.Class {
		case ClassLeaf, ClassSkip:
			if rapid.IntRange(0, 3).Draw(t, "def_zero") == 0 {
				continue // zero value / nil default
			}
			d.Defaults[n.Path] = rapid.Uint64Range(1, 1<<40).Draw(t, "def_seed")
		case ClassPStruct:
			if rapid.IntRange(0, 2).Draw(t, "def_nil") == 0 {
				d.DefNil[n.Path] = true
			}
		}
	}
	nl := rapid.IntRange(0, maxLayers).Draw(t, "nlayers")
	for li := 0; li < nl; li++ {
		l := Layer{Set: map[string]uint64{}, Present: map[string]bool{}, ByPtr: rapid.Bool().Draw(t, "by_ptr")}
		pct := setPercent
		switch rapid.IntRange(0, 5).Draw(t, "layer_density") {
		case 0:
			pct = 0
		case 1:
			pct = 90
		}
		for _, n := range nodes {
			switch n.Class {
			case ClassLeaf:
				if rapid.IntRange(0, 99).Draw(t, "set") < pct {
					l.Set[n.Path] = rapid.Uint64Range(1, 1<<40).Draw(t, "seed")
				}
			case ClassStruct, ClassPStruct:
				if rapid.IntRange(0, 99).Draw(t, "present") < 15 {
					l.Present[n.Path] = true
				}
			}
		}
		d.Layers = append(d.Layers, l)
	}
	return d
}

// Describe renders a node list for messages.
func Describe(nodes []Node) string {
	var b strings.Builder
	for _, n := range nodes {
		fmt.Fprintf(&b, "%s:%s(%d) ", n.Path, n.Type, n.Class)
	}
	return b.String()
}
