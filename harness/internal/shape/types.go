// Package shape describes config struct types as JSON-serialisable trees,
// builds them with reflect, builds default / layer values for them from
// integer seeds, and provides a reference stacking model and comparers that
// are independent of the code under test.
package shape

import (
	"fmt"
	"net"
	"reflect"
	"strconv"
	"strings"
	"time"
)

// ---- harness vocabulary of named types (reflect cannot mint named types) ----

// Level is a named unsigned scalar.
type Level uint8

// Count is a named signed scalar.
type Count int32

// Ratio is a named float.
type Ratio float64

// Flag is a named bool.
type Flag bool

// Name is a named string (no methods).
type Name string

// Timeout is a named duration-like integer.
type Timeout time.Duration

// Names is a named string slice.
type Names []string

// Nums is a named int slice.
type Nums []int

// Limits is a named map.
type Limits map[string]int

// Labels is a named string map.
type Labels map[string]string

// Color is a named string that implements encoding.TextUnmarshaler on its
// pointer.
type Color string

// UnmarshalText implements encoding.TextUnmarshaler.
func (c *Color) UnmarshalText(b []byte) error {
	if !strings.HasPrefix(string(b), "#") {
		return fmt.Errorf("color %q must start with #", b)
	}
	*c = Color(b)
	return nil
}

// MarshalText implements encoding.TextMarshaler.
func (c Color) MarshalText() ([]byte, error) { return []byte(c), nil }

// Stamp is a struct that implements encoding.TextUnmarshaler on its pointer,
// so dials treats it as an atomic leaf.
type Stamp struct {
	Major, Minor int
	Note         string
}

// UnmarshalText implements encoding.TextUnmarshaler ("major.minor-note").
func (s *Stamp) UnmarshalText(b []byte) error {
	str := string(b)
	dash := strings.IndexByte(str, '-')
	if dash < 0 {
		return fmt.Errorf("stamp %q: missing '-'", str)
	}
	dot := strings.IndexByte(str[:dash], '.')
	if dot < 0 {
		return fmt.Errorf("stamp %q: missing '.'", str)
	}
	ma, err := strconv.Atoi(str[:dot])
	if err != nil {
		return err
	}
	mi, err := strconv.Atoi(str[dot+1 : dash])
	if err != nil {
		return err
	}
	s.Major, s.Minor, s.Note = ma, mi, str[dash+1:]
	return nil
}

// MarshalText implements encoding.TextMarshaler.
func (s Stamp) MarshalText() ([]byte, error) {
	return []byte(fmt.Sprintf("%d.%d-%s", s.Major, s.Minor, s.Note)), nil
}

// Tagged is a text-unmarshalable struct (an atomic leaf for dials) whose
// EXPORTED fields are reference-typed, so that shallow copies of it are
// visible to the aliasing checks.
type Tagged struct {
	Labels []string
	Meta   map[string]string
	Ref    *int
}

// UnmarshalText implements encoding.TextUnmarshaler (comma separated labels).
func (t *Tagged) UnmarshalText(b []byte) error {
	t.Labels = strings.Split(string(b), ",")
	return nil
}

// Tree is a recursive element type (through a slice, which pointerification
// does not descend into): values of it can be nested far deeper than any
// config type.
type Tree struct {
	Label string
	Vals  []int
	M     map[string]int
	Sub   []Tree
}

// PKey is a map key that holds a pointer: what it points to is reachable
// memory like any other.
type PKey struct {
	P *int
	N int
}

// PKeyMap / ArrKeyMap are maps whose KEYS reference memory.
type PKeyMap map[PKey]int
type ArrKeyMap map[[1]*int]string

// Pt is a small struct used as an element of collections.
type Pt struct {
	X, Y int
}

// Rec is a struct with reference-typed fields used as an element of
// collections.
type Rec struct {
	Name string
	Vals []int
	M    map[string]string
	P    *int
}

// EmbA, EmbB, EmbC are method-less named structs for embedding.
type EmbA struct {
	EaNum  int
	EaText string
}

// EmbB has a collection and a pointer leaf.
type EmbB struct {
	EbList []string
	EbPtr  *int
	EbFlag bool
}

// EmbC has a skipped field between two retained ones and a nested struct.
type EmbC struct {
	EcFirst  int16
	ecHidden int
	EcChan   chan int `json:"-"`
	EcSecond string
	EcInner  struct {
		Deep uint32
		Tag  string
	}
}

var baseTypes = map[string]reflect.Type{
	"bool":          reflect.TypeOf(false),
	"int":           reflect.TypeOf(int(0)),
	"int8":          reflect.TypeOf(int8(0)),
	"int16":         reflect.TypeOf(int16(0)),
	"int32":         reflect.TypeOf(int32(0)),
	"int64":         reflect.TypeOf(int64(0)),
	"uint":          reflect.TypeOf(uint(0)),
	"uint8":         reflect.TypeOf(uint8(0)),
	"uint16":        reflect.TypeOf(uint16(0)),
	"uint32":        reflect.TypeOf(uint32(0)),
	"uint64":        reflect.TypeOf(uint64(0)),
	"uintptr":       reflect.TypeOf(uintptr(0)),
	"float32":       reflect.TypeOf(float32(0)),
	"float64":       reflect.TypeOf(float64(0)),
	"complex64":     reflect.TypeOf(complex64(0)),
	"complex128":    reflect.TypeOf(complex128(0)),
	"string":        reflect.TypeOf(""),
	"time.Duration": reflect.TypeOf(time.Duration(0)),
	"time.Time":     reflect.TypeOf(time.Time{}),
	"net.IP":        reflect.TypeOf(net.IP{}),
	"struct{}":      reflect.TypeOf(struct{}{}),
	"Level":         reflect.TypeOf(Level(0)),
	"Count":         reflect.TypeOf(Count(0)),
	"Ratio":         reflect.TypeOf(Ratio(0)),
	"Flag":          reflect.TypeOf(Flag(false)),
	"Name":          reflect.TypeOf(Name("")),
	"Timeout":       reflect.TypeOf(Timeout(0)),
	"Names":         reflect.TypeOf(Names(nil)),
	"Nums":          reflect.TypeOf(Nums(nil)),
	"Limits":        reflect.TypeOf(Limits(nil)),
	"Labels":        reflect.TypeOf(Labels(nil)),
	"Color":         reflect.TypeOf(Color("")),
	"Stamp":         reflect.TypeOf(Stamp{}),
	"Tagged":        reflect.TypeOf(Tagged{}),
	"Tree":          reflect.TypeOf(Tree{}),
	"PKeyMap":       reflect.TypeOf(PKeyMap(nil)),
	"ArrKeyMap":     reflect.TypeOf(ArrKeyMap(nil)),
	"Pt":            reflect.TypeOf(Pt{}),
	"Rec":           reflect.TypeOf(Rec{}),
	"EmbA":          reflect.TypeOf(EmbA{}),
	"EmbB":          reflect.TypeOf(EmbB{}),
	"EmbC":          reflect.TypeOf(EmbC{}),
}

// RegisterBase adds a named type to the vocabulary (used by property packages
// that need their own named types).
func RegisterBase(name string, t reflect.Type) { baseTypes[name] = t }

// ParseType turns a type expression of the small grammar
//
//	T := base | "[]"T | "["N"]"T | "map[string]"T | "*"T
//
// into a reflect.Type.
func ParseType(s string) (reflect.Type, error) {
	switch {
	case strings.HasPrefix(s, "[]"):
		e, err := ParseType(s[2:])
		if err != nil {
			return nil, err
		}
		return reflect.SliceOf(e), nil
	case strings.HasPrefix(s, "map[string]"):
		e, err := ParseType(s[len("map[string]"):])
		if err != nil {
			return nil, err
		}
		return reflect.MapOf(reflect.TypeOf(""), e), nil
	case strings.HasPrefix(s, "*"):
		e, err := ParseType(s[1:])
		if err != nil {
			return nil, err
		}
		return reflect.PointerTo(e), nil
	case strings.HasPrefix(s, "["):
		end := strings.IndexByte(s, ']')
		if end < 0 {
			return nil, fmt.Errorf("bad array type %q", s)
		}
		n, err := strconv.Atoi(s[1:end])
		if err != nil {
			return nil, err
		}
		e, err := ParseType(s[end+1:])
		if err != nil {
			return nil, err
		}
		return reflect.ArrayOf(n, e), nil
	}
	if t, ok := baseTypes[s]; ok {
		return t, nil
	}
	return nil, fmt.Errorf("unknown type %q", s)
}

// MustType is ParseType that panics.
func MustType(s string) reflect.Type {
	t, err := ParseType(s)
	if err != nil {
		panic(err)
	}
	return t
}
