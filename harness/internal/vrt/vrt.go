// Package vrt is the run-time plumbing shared by every property check:
// generate -> journal -> execute -> compare, statistics for the evidence
// file, replay of saved cases without the property-testing library, and
// known-finding bookkeeping.
package vrt

import (
	"crypto/sha1"
	"encoding/hex"
	"encoding/json"
	"fmt"
	"os"
	"path/filepath"
	"runtime/debug"
	"sort"
	"strings"
	"testing"
	"time"

	"pgregory.net/rapid"
)

// Status of one executed case.
type Status int

const (
	// StatusOK means the property held on the case.
	StatusOK Status = iota
	// StatusViolation means the property was violated.
	StatusViolation
	// StatusDiscard means the case was outside the property's domain.
	StatusDiscard
)

// Verdict is what Run returns for a case.
type Verdict struct {
	Status     Status
	Msg        string
	Key        string // root-cause key, matched against known_findings.json
	Labels     []string
	NonTrivial bool
}

// OK builds a passing verdict.
func OK(nonTrivial bool, labels ...string) Verdict {
	return Verdict{Status: StatusOK, NonTrivial: nonTrivial, Labels: labels}
}

// Violationf builds a failing verdict.
func Violationf(format string, a ...any) Verdict {
	return Verdict{Status: StatusViolation, Msg: fmt.Sprintf(format, a...)}
}

// KeyedViolationf builds a failing verdict with a root-cause key.
func KeyedViolationf(key, format string, a ...any) Verdict {
	return Verdict{Status: StatusViolation, Key: key, Msg: fmt.Sprintf(format, a...)}
}

// Discardf builds a discard verdict.
func Discardf(format string, a ...any) Verdict {
	return Verdict{Status: StatusDiscard, Msg: fmt.Sprintf(format, a...)}
}

// With adds labels / non-triviality to a verdict.
func (v Verdict) With(nonTrivial bool, labels ...string) Verdict {
	v.NonTrivial = v.NonTrivial || nonTrivial
	v.Labels = append(v.Labels, labels...)
	return v
}

// Prop describes one generated check of one property.
type Prop[C any] struct {
	ID          string // property id, e.g. "C19"
	Name        string // name of this check within the property
	Rule        string // how cases are generated and what makes one non-trivial
	Assumptions []string
	NoJournal   bool // skip the per-case journal (cheap, crash-free checks)
	Gen         func(*rapid.T) C
	Run         func(C) Verdict
}

// SavedCase is the on-disk form of a case (journal, failure, corpus).
type SavedCase struct {
	Property string          `json:"property"`
	Check    string          `json:"check"`
	Msg      string          `json:"msg,omitempty"`
	Key      string          `json:"key,omitempty"`
	Note     string          `json:"note,omitempty"`
	Expect   string          `json:"expect,omitempty"` // "pass" (default) or "known"
	Case     json.RawMessage `json:"case"`
}

// Stats is what one test function reports to the driver.
type Stats struct {
	Property      string          `json:"property"`
	Check         string          `json:"check"`
	Mode          string          `json:"mode"`
	Evaluations   int             `json:"evaluations"`
	OK            int             `json:"ok"`
	Discards      int             `json:"discards"`
	Violations    int             `json:"violations"`
	KnownHits     map[string]int  `json:"known_hits,omitempty"`
	NonTrivial    int             `json:"nontrivial"`
	NTHashes      []string        `json:"nt_hashes,omitempty"`
	Labels        map[string]int  `json:"labels"`
	Samples       []any           `json:"samples"`
	Rule          string          `json:"rule"`
	Assumptions   []string        `json:"assumptions"`
	WallS         float64         `json:"wall_s"`
	Replayed      []ReplayOutcome `json:"replayed,omitempty"`
	FirstFailMsg  string          `json:"first_fail_msg,omitempty"`
	FirstFailKey  string          `json:"first_fail_key,omitempty"`
	FailFile      string          `json:"fail_file,omitempty"`
	DistinctTotal int             `json:"distinct_total"`
}

// ReplayOutcome is the result of one replayed corpus file.
type ReplayOutcome struct {
	File   string `json:"file"`
	Status string `json:"status"` // pass | fail | known | skip
	Msg    string `json:"msg,omitempty"`
	Key    string `json:"key,omitempty"`
}

type knownEntry struct {
	Property string `json:"property"`
	Key      string `json:"key"`
	Status   string `json:"status"` // "known" or "fixed"
	What     string `json:"what"`
}

func loadKnown() map[string]string {
	out := map[string]string{}
	p := os.Getenv("VERIF_KNOWN")
	if p == "" {
		return out
	}
	b, err := os.ReadFile(p)
	if err != nil {
		return out
	}
	var f struct {
		Findings []knownEntry `json:"findings"`
	}
	if json.Unmarshal(b, &f) != nil {
		return out
	}
	for _, e := range f.Findings {
		if e.Status == "known" {
			out[e.Property+":"+e.Key] = e.What
		}
	}
	return out
}

// IsKnown reports whether a root-cause key is listed as a known (unrepaired)
// finding; generators may use it to label or avoid such inputs.
func IsKnown(property, key string) bool {
	_, ok := loadKnown()[property+":"+key]
	return ok
}

// SafeRun executes run, turning a panic on the calling goroutine into a
// violation.
func SafeRun[C any](run func(C) Verdict, c C) (v Verdict) {
	defer func() {
		if r := recover(); r != nil {
			st := string(debug.Stack())
			if len(st) > 6000 {
				st = st[:6000]
			}
			v = Verdict{Status: StatusViolation, Key: "panic", Msg: fmt.Sprintf("panic: %v\n%s", r, st)}
		}
	}()
	return run(c)
}

func hashOf(b []byte) string {
	h := sha1.Sum(b)
	return hex.EncodeToString(h[:8])
}

func sampleValue(js []byte) any {
	if len(js) > 6000 {
		return string(js[:6000]) + "...(truncated)"
	}
	return json.RawMessage(js)
}

// Check runs a property in the mode selected by the environment:
//
//	VERIF_MODE=gen (default)  rapid-driven generation (-rapid.checks / -rapid.seed)
//	VERIF_MODE=replay         run the saved cases named by VERIF_REPLAY
//	                          (a directory or ':'-separated files), bypassing rapid
//	VERIF_OUT=<dir>           where stats / journal / failing case are written
func Check[C any](t *testing.T, p Prop[C]) {
	t.Helper()
	out := os.Getenv("VERIF_OUT")
	mode := os.Getenv("VERIF_MODE")
	if mode == "" {
		mode = "gen"
	}
	known := loadKnown()
	startWedgeWatchdog()
	base := p.ID + "." + p.Name
	st := &Stats{Property: p.ID, Check: p.Name, Mode: mode, Labels: map[string]int{}, KnownHits: map[string]int{},
		Rule: p.Rule, Assumptions: p.Assumptions, Samples: []any{}}
	start := time.Now()
	ntSeen := map[string]bool{}
	allSeen := map[string]bool{}
	writeStats := func() {
		st.WallS = time.Since(start).Seconds()
		st.NonTrivial = len(ntSeen)
		st.DistinctTotal = len(allSeen)
		if out == "" {
			return
		}
		hs := make([]string, 0, len(ntSeen))
		for h := range ntSeen {
			hs = append(hs, h)
		}
		sort.Strings(hs)
		st.NTHashes = hs
		b, _ := json.Marshal(st)
		_ = os.WriteFile(filepath.Join(out, base+".stats.json"), b, 0o644)
	}
	defer writeStats()

	record := func(js []byte, v Verdict) {
		st.Evaluations++
		h := hashOf(js)
		allSeen[h] = true
		switch v.Status {
		case StatusOK:
			st.OK++
		case StatusDiscard:
			st.Discards++
			st.Labels["discard:"+v.Msg]++
			return
		}
		for _, l := range v.Labels {
			st.Labels[l]++
		}
		if v.NonTrivial {
			st.Labels["nontrivial"]++
			if !ntSeen[h] {
				ntSeen[h] = true
				n := len(ntSeen)
				// keep samples at distinct-case indices 1,2,3,10,100,1000,...
				if n <= 3 || n == 10 || n == 100 || n == 1000 || n == 10000 || n == 100000 {
					st.Samples = append(st.Samples, sampleValue(js))
				}
			}
		}
	}

	if mode == "replay" {
		files := replayFiles(os.Getenv("VERIF_REPLAY"))
		for _, f := range files {
			b, err := os.ReadFile(f)
			if err != nil {
				continue
			}
			var sc SavedCase
			if err := json.Unmarshal(b, &sc); err != nil {
				st.Replayed = append(st.Replayed, ReplayOutcome{File: f, Status: "skip", Msg: "bad json: " + err.Error()})
				continue
			}
			if sc.Property != p.ID || sc.Check != p.Name {
				continue
			}
			var c C
			if err := json.Unmarshal(sc.Case, &c); err != nil {
				st.Replayed = append(st.Replayed, ReplayOutcome{File: f, Status: "skip", Msg: "case does not decode: " + err.Error()})
				continue
			}
			if out != "" && !p.NoJournal {
				jb, _ := json.Marshal(SavedCase{Property: p.ID, Check: p.Name, Case: sc.Case, Note: "journal (replay of " + f + ")"})
				_ = os.WriteFile(filepath.Join(out, base+".journal.json"), jb, 0o644)
			}
			caseBegin()
			v := SafeRun(p.Run, c)
			caseEnd()
			record(sc.Case, v)
			ro := ReplayOutcome{File: f, Status: "pass", Msg: v.Msg, Key: v.Key}
			if v.Status == StatusViolation {
				if _, ok := known[p.ID+":"+v.Key]; ok && v.Key != "" {
					ro.Status = "known"
					st.KnownHits[v.Key]++
				} else {
					ro.Status = "fail"
					st.Violations++
					if st.FirstFailMsg == "" {
						st.FirstFailMsg, st.FirstFailKey, st.FailFile = v.Msg, v.Key, f
					}
					t.Errorf("replay %s: VIOLATION: %s", f, v.Msg)
				}
			}
			st.Replayed = append(st.Replayed, ro)
		}
		return
	}

	failed := false
	rapid.Check(t, func(rt *rapid.T) {
		c := p.Gen(rt)
		js, err := json.Marshal(c)
		if err != nil {
			rt.Fatalf("case does not marshal: %v", err)
		}
		if out != "" && !p.NoJournal {
			jb, _ := json.Marshal(SavedCase{Property: p.ID, Check: p.Name, Case: js, Note: "journal"})
			_ = os.WriteFile(filepath.Join(out, base+".journal.json"), jb, 0o644)
		}
		caseBegin()
		v := SafeRun(p.Run, c)
		caseEnd()
		if v.Status == StatusViolation && v.Key != "" {
			if _, ok := known[p.ID+":"+v.Key]; ok {
				// A listed, unrepaired finding: counted, not reported again,
				// and the search goes on behind it.
				if !failed {
					st.KnownHits[v.Key]++
				}
				v = Verdict{Status: StatusOK, Labels: append(v.Labels, "known:"+v.Key)}
			}
		}
		if !failed {
			record(js, v)
		}
		if v.Status == StatusViolation {
			if !failed {
				failed = true
				st.Violations++
				st.FirstFailMsg, st.FirstFailKey = v.Msg, v.Key
			}
			if out != "" {
				fb, _ := json.MarshalIndent(SavedCase{Property: p.ID, Check: p.Name, Msg: v.Msg, Key: v.Key, Case: js}, "", " ")
				ff := filepath.Join(out, base+".fail.json")
				_ = os.WriteFile(ff, fb, 0o644)
				st.FailFile = ff
			}
			rt.Fatalf("VIOLATION %s/%s: %s\ncase: %s", p.ID, p.Name, v.Msg, clip(string(js), 4000))
		}
	})
}

func clip(s string, n int) string {
	if len(s) > n {
		return s[:n] + "..."
	}
	return s
}

func replayFiles(spec string) []string {
	var out []string
	for _, part := range strings.Split(spec, ":") {
		if part == "" {
			continue
		}
		fi, err := os.Stat(part)
		if err != nil {
			continue
		}
		if fi.IsDir() {
			m, _ := filepath.Glob(filepath.Join(part, "*.json"))
			sort.Strings(m)
			out = append(out, m...)
		} else {
			out = append(out, part)
		}
	}
	return out
}
