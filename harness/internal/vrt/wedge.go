package vrt

import (
	"fmt"
	"os"
	"regexp"
	"runtime"
	"strconv"
	"strings"
	"sync"
	"sync/atomic"
	"time"
)

// Wedge watchdog.
//
// A goroutine that waits for a sync.Mutex inside a synctest bubble is not
// "durably blocked": the bubble can neither advance its clock nor report a
// deadlock, so a leaked lock leaves the process silent until the go test
// deadline.  The watchdog (started outside every bubble, so it lives on real
// time) looks at the goroutine states once a case has been running for
// VERIF_WEDGE_S (default 45) real seconds.  The case is declared wedged only on
// structural evidence, never on elapsed time alone: at least one goroutine is
// waiting for a sync primitive, no goroutine is running, runnable, in a system
// call, in network / file IO or in a real-time sleep, and three dumps taken
// over >= 20 s show exactly the same goroutines in the same states.  It then
// prints a "[wedged]" line with the dump and exits with status 97; the case is
// in the journal, so the driver reports it with a replay file.
var caseStart atomic.Int64
var wedgeOnce sync.Once

var goroutineHdr = regexp.MustCompile(`(?m)^goroutine (\d+) \[([^\]]*)\]:$`)

func wedgeSnapshot(self string) (sig string, lockWaiters int, alive int, dump string) {
	buf := make([]byte, 4<<20)
	buf = buf[:runtime.Stack(buf, true)]
	dump = string(buf)
	blocks := strings.Split(dump, "\n\n")
	var b strings.Builder
	for _, blk := range blocks {
		m := goroutineHdr.FindStringSubmatch(blk)
		if m == nil {
			continue
		}
		state := m[2]
		if i := strings.Index(state, ","); i >= 0 {
			state = state[:i] // drop "N minutes", "synctest bubble N", "locked to thread"
		}
		if strings.Contains(blk, self) || strings.Contains(blk, "os/signal.signal_recv") {
			continue
		}
		fmt.Fprintf(&b, "%s=%s;", m[1], state)
		switch {
		case strings.HasPrefix(state, "sync.") || state == "semacquire":
			lockWaiters++
		case state == "running" || state == "runnable" || state == "syscall" || state == "IO wait" || state == "sleep" ||
			strings.HasPrefix(state, "GC "):
			alive++
		}
	}
	return b.String(), lockWaiters, alive, dump
}

func startWedgeWatchdog() {
	wedgeOnce.Do(func() {
		after := 45 * time.Second
		if s := os.Getenv("VERIF_WEDGE_S"); s != "" {
			if n, err := strconv.Atoi(s); err == nil && n > 0 {
				after = time.Duration(n) * time.Second
			}
		}
		go wedgeWatchdog(after)
	})
}

func wedgeWatchdog(after time.Duration) {
	const self = "vrt.wedgeWatchdog"
	var lastSig string
	var lastStart int64
	same := 0
	for {
		time.Sleep(10 * time.Second)
		cs := caseStart.Load()
		if cs == 0 || time.Since(time.Unix(0, cs)) < after {
			same, lastSig = 0, ""
			continue
		}
		sig, lockWaiters, alive, dump := wedgeSnapshot(self)
		if lockWaiters == 0 || alive > 0 {
			same, lastSig = 0, ""
			continue
		}
		if sig == lastSig && cs == lastStart {
			same++
		} else {
			same, lastSig, lastStart = 1, sig, cs
		}
		if same >= 3 {
			fmt.Fprintf(os.Stderr, "\n[wedged] the case has been running for %s; %d goroutine(s) wait for a sync primitive, none can run, and the goroutine states did not change over the last 20 s: the code under test holds (leaked) a lock or lost a wake-up\n%s\n",
				time.Since(time.Unix(0, cs)).Round(time.Second), lockWaiters, dump)
			os.Exit(97)
		}
	}
}

func caseBegin() { caseStart.Store(time.Now().UnixNano()) }
func caseEnd()   { caseStart.Store(0) }
