// Package fake provides dials sources whose values and watch arguments are
// held by the harness.
package fake

import (
	"context"
	"reflect"

	"github.com/vimeo/dials"
)

// Static is a non-watching source returning a fixed value.
type Static struct {
	V   reflect.Value
	Mk  func(*dials.Type) reflect.Value // used when V is not set
	Err error
	// Type, if non-nil, receives the type dials asked for.
	Type *dials.Type
}

// Value implements dials.Source.
func (s *Static) Value(_ context.Context, t *dials.Type) (reflect.Value, error) {
	s.Type = t
	if s.Err != nil {
		return reflect.Value{}, s.Err
	}
	if !s.V.IsValid() {
		if s.Mk != nil {
			return s.Mk(t), nil
		}
		return reflect.New(t.Type()).Elem(), nil // a layer that sets nothing
	}
	return s.V, nil
}

// Watcher is a watching source; the harness reports through Args.
type Watcher struct {
	V        reflect.Value
	Mk       func(*dials.Type) reflect.Value // used when V is not set
	Err      error
	WatchErr error
	Type     *dials.Type
	Args     dials.WatchArgs
	Ctx      context.Context
}

// Value implements dials.Source.
func (w *Watcher) Value(_ context.Context, t *dials.Type) (reflect.Value, error) {
	w.Type = t
	if w.Err != nil {
		return reflect.Value{}, w.Err
	}
	if !w.V.IsValid() {
		if w.Mk != nil {
			return w.Mk(t), nil
		}
		return reflect.New(t.Type()).Elem(), nil // a layer that sets nothing
	}
	return w.V, nil
}

// Watch implements dials.Watcher.
func (w *Watcher) Watch(ctx context.Context, t *dials.Type, args dials.WatchArgs) error {
	w.Ctx = ctx
	w.Args = args
	return w.WatchErr
}

var _ dials.Source = (*Static)(nil)
var _ dials.Watcher = (*Watcher)(nil)
