package psim

import (
	"context"
	"errors"
	"fmt"
	"reflect"
	"strings"
	"sync"
	"testing"
	"testing/synctest"

	"github.com/vimeo/dials"
	"pgregory.net/rapid"

	"verifharness/internal/fake"
	"verifharness/internal/vrt"
)

// C04OCase: the callback goroutine is parked in a callback, enough updates
// are installed to overflow the (64-slot) callback queue, and then valid,
// invalid and unstackable updates follow while the queue is still full.
type C04OCase struct {
	Extra int   `json:"extra"` // installs beyond the queue capacity
	Ops   []UOp `json:"ops"`
	// ParkIn: which callback parks the callback goroutine
	ParkIn string `json:"park_in"` // new | registered
	// After: valid updates installed after the callback goroutine was released and has drained the queue
	After int `json:"after,omitempty"`
	// Short k>0: the queue is NOT overflowed - only 64-k events are queued behind
	// the parked callback before the ops (k >= len(ops), so the ops fill it up to
	// at most exactly its capacity): nothing may be dropped
	Short int `json:"short,omitempty"`
}

const cbQueueCap = 64

func genC04O(t *rapid.T) C04OCase {
	c := C04OCase{Extra: rapid.IntRange(2, 8).Draw(t, "extra"), ParkIn: rapid.SampledFrom([]string{"new", "registered"}).Draw(t, "park_in")}
	c.After = rapid.IntRange(0, 3).Draw(t, "after")
	n := rapid.IntRange(1, 8).Draw(t, "ops")
	for i := 0; i < n; i++ {
		op := UOp{Src: 0, N: 1000 + i, Block: rapid.IntRange(0, 3).Draw(t, "block") != 0}
		switch rapid.IntRange(0, 5).Draw(t, "kind") {
		case 0, 1:
			op.SetI = true
		case 2, 3:
			v := -(i + 1)
			op.Limit = &v
		}
		c.Ops = append(c.Ops, op)
	}
	if rapid.IntRange(0, 2).Draw(t, "not_overflowed") == 0 {
		c.Short = n + rapid.SampledFrom([]int{0, 0, 1, 2, 5, 16}).Draw(t, "short_slack")
	}
	return c
}

// runC04O reports only the failures that bear on prop (the first argument of
// fail names the properties a failed expectation belongs to).
func runC04O(prop string, c C04OCase) (verdict vrt.Verdict) {
	if c.Extra < 0 || c.Extra > 64 || len(c.Ops) == 0 || c.After < 0 || c.After > 8 || c.Short < 0 || c.Short > 60 || (c.Short > 0 && c.Short < len(c.Ops)) {
		return vrt.Discardf("bad case")
	}
	var msg string
	fail := func(tags, format string, a ...any) {
		if msg == "" && strings.Contains(tags, prop) {
			msg = fmt.Sprintf(format, a...)
		}
	}
	defer func() {
		if p := recover(); p != nil {
			// a monitor or report that is stuck concerns every property that shares these histories
			verdict = vrt.KeyedViolationf("panic", "panic / synctest failure (a blocking report that is never answered, or a monitor that waits for room in the callback queue, leaves the bubble deadlocked): %v", p)
		}
	}()
	rejectedBlocking, installedFull := 0, 0
	synctest.Test(curT, func(st *testing.T) {
		ctx, cancel := context.WithCancel(context.Background())
		gate := make(chan struct{})
		var once sync.Once
		release := func() { once.Do(func() { close(gate) }) }
		defer func() { release(); cancel(); synctest.Wait() }()
		uVerifyMu.Lock()
		uVerifyLog = nil
		uVerifyMu.Unlock()
		var mu sync.Mutex
		parked := false
		watchErrs := 0
		var seenNew, seenReg []int // N of the new config of each OnNewConfig / registered-callback call, in call order
		var pairBad string
		record := func(which *[]int, o, n *UCfg) {
			mu.Lock()
			*which = append(*which, n.N)
			if o != nil && o.N >= n.N && pairBad == "" {
				pairBad = fmt.Sprintf("a callback was called with old N=%d, new N=%d", o.N, n.N)
			}
			mu.Unlock()
		}
		park := func() {
			mu.Lock()
			first := !parked
			parked = true
			mu.Unlock()
			if first {
				<-gate
			}
		}
		params := dials.Params[UCfg]{
			OnNewConfig: func(_ context.Context, o, n *UCfg) {
				record(&seenNew, o, n)
				if c.ParkIn == "new" {
					park()
				}
			},
			OnWatchedError: func(context.Context, error, *UCfg, *UCfg) {
				mu.Lock()
				watchErrs++
				mu.Unlock()
			},
		}
		w := &fake.Watcher{}
		d, err := params.Config(ctx, &UCfg{N: 0, I: ULabel{Text: "default"}}, w)
		if err != nil {
			fail("C04,C05,C06,C07,C08", "Config failed: %v", err)
			return
		}
		if c.ParkIn == "registered" {
			_, tok := d.ViewVersion()
			if unreg := d.RegisterCallback(ctx, tok, func(_ context.Context, o, n *UCfg) { record(&seenReg, o, n); park() }); unreg == nil {
				fail("C04,C05,C06,C07,C08", "RegisterCallback failed")
				return
			}
			synctest.Wait()
		}
		pt := w.Type.Type()
		// overflow the callback queue: one event is held by the parked callback, 64 fit the queue
		fill := 1 + cbQueueCap + c.Extra
		if c.Short > 0 {
			fill = 1 + cbQueueCap - c.Short // one event in the parked callback, 64-k in the queue
		}
		var installed []int // N of every installed version, in order
		for i := 0; i < fill; i++ {
			installed = append(installed, i+1)
			op := UOp{N: i + 1}
			if err := w.Args.BlockingReportNewValue(ctx, uLayer(pt, &op)); err != nil {
				fail("C04,C05,C07,C08", "fill %d: blocking report of a valid value returned %v", i, err)
				return
			}
			if got := d.View().N; got != i+1 {
				fail("C04,C05,C07,C08", "fill %d: a blocking report returned nil but the view holds N=%d, want %d (a callback that blocks must not stop new configs from being installed and viewed)", i, got, i+1)
				return
			}
		}
		synctest.Wait()
		mu.Lock()
		isParked := parked
		mu.Unlock()
		if !isParked {
			fail("C04,C05,C06,C07,C08", "harness: the callback goroutine never reached the parking callback")
			return
		}
		curView, curTok := d.ViewVersion()
		curSerial := serialOf(curTok)
		for i := range c.Ops {
			op := &c.Ops[i]
			step := fmt.Sprintf("op %d with the callback queue overflowed (n=%d setI=%v limit=%v block=%v)", i, op.N, op.SetI, op.Limit, op.Block)
			val := uLayer(pt, op)
			var rerr error
			if op.Block {
				rerr = w.Args.BlockingReportNewValue(ctx, val)
			} else {
				rerr = w.Args.ReportNewValue(ctx, val)
			}
			synctest.Wait()
			v, tok := d.ViewVersion()
			invalid := op.Limit != nil && *op.Limit < 0
			switch {
			case op.SetI || invalid:
				if v != curView || serialOf(tok) != curSerial {
					fail("C04,C05,C07,C08", "%s: an update that must be rejected changed the view or the serial (%d -> %d)", step, curSerial, serialOf(tok))
					return
				}
				if op.Block {
					rejectedBlocking++
					if rerr == nil {
						fail("C04,C07,C08", "%s: the blocking report of a rejected update returned nil", step)
						return
					}
					if invalid && !op.SetI && !errors.Is(rerr, ErrInvalid) {
						fail("C04,C07", "%s: the blocking report of an update that does not verify returned %v, want the verifier's error (also when the callback queue has overflowed)", step, rerr)
						return
					}
					if op.SetI && (errors.Is(rerr, ErrInvalid) || errors.Is(rerr, context.Canceled) || errors.Is(rerr, context.DeadlineExceeded)) {
						fail("C04,C07", "%s: the blocking report of an update that cannot be stacked returned %v, want the stacking error", step, rerr)
						return
					}
				} else if rerr != nil {
					fail("C04,C08", "%s: ReportNewValue returned %v", step, rerr)
					return
				}
			default:
				if rerr != nil {
					fail("C04,C05,C07,C08", "%s: report of a valid value returned %v", step, rerr)
					return
				}
				if serialOf(tok) != curSerial+1 || v == curView || v.N != op.N {
					fail("C04,C05,C07,C08", "%s: a valid update was not installed (serial %d -> %d, N=%d want %d)", step, curSerial, serialOf(tok), v.N, op.N)
					return
				}
				installedFull++
				installed = append(installed, op.N)
				curView, curSerial = v, serialOf(tok)
			}
		}
		release()
		synctest.Wait()
		// the callback goroutine has drained what fitted the queue; further updates must be announced after, never before, those
		for i := 0; i < c.After; i++ {
			op := UOp{N: 2000 + i}
			if err := w.Args.BlockingReportNewValue(ctx, uLayer(pt, &op)); err != nil {
				fail("C04,C05,C07,C08", "after release, update %d: blocking report of a valid value returned %v", i, err)
				return
			}
			synctest.Wait()
			if got := d.View().N; got != op.N {
				fail("C04,C05,C07,C08", "after release, update %d: the view holds N=%d, want %d", i, got, op.N)
				return
			}
			installed = append(installed, op.N)
		}
		if c.Short > 0 {
			// the queue never overflowed: every event is delivered
			mu.Lock()
			gotNew, gotReg, gotErrs := append([]int{}, seenNew...), append([]int{}, seenReg...), watchErrs
			mu.Unlock()
			wantErrs := 0
			for i := range c.Ops {
				if c.Ops[i].SetI || (c.Ops[i].Limit != nil && *c.Ops[i].Limit < 0) {
					wantErrs++
				}
			}
			if gotErrs != wantErrs {
				fail("C04", "the callback queue held at most %d of its 64 events (never overflowed), %d updates were rejected, but OnWatchedError was called %d times: every rejected update produces exactly one error callback", cbQueueCap-c.Short+len(c.Ops), wantErrs, gotErrs)
				return
			}
			if !reflect.DeepEqual(gotNew, installed) {
				fail("C06", "the callback queue never overflowed (at most %d of 64 events queued), yet OnNewConfig saw %d of the %d installed versions (first difference at call %d): no installed version may be skipped while the drop-on-overflow does not trigger", cbQueueCap-c.Short+len(c.Ops), len(gotNew), len(installed), firstDiff(gotNew, installed))
				return
			}
			if c.ParkIn == "registered" && !reflect.DeepEqual(gotReg, installed) {
				fail("C06", "the callback queue never overflowed, yet the registered callback saw %d of the %d installed versions (first difference at call %d)", len(gotReg), len(installed), firstDiff(gotReg, installed))
				return
			}
		}
		mu.Lock()
		defer mu.Unlock()
		for name, seen := range map[string][]int{"OnNewConfig": seenNew, "the registered callback": seenReg} {
			for i := 1; i < len(seen); i++ {
				if seen[i] <= seen[i-1] {
					fail("C06", "%s received version N=%d after it had already received N=%d (dropping events on overflow is documented; delivering them out of installation order is not); sequence tail %v", name, seen[i], seen[i-1], seen[max(0, i-3):min(len(seen), i+2)])
					return
				}
			}
		}
		if pairBad != "" {
			fail("C06", "%s", pairBad)
			return
		}
		if c.After > 0 {
			if len(seenNew) == 0 || seenNew[len(seenNew)-1] != 2000+c.After-1 {
				fail("C06,C04", "with the queue drained, the last update (N=%d) was not announced to OnNewConfig; it saw %d calls, last %v", 2000+c.After-1, len(seenNew), seenNew[max(0, len(seenNew)-2):])
				return
			}
			if c.ParkIn == "registered" && (len(seenReg) == 0 || seenReg[len(seenReg)-1] != 2000+c.After-1) {
				fail("C06", "with the queue drained, the last update (N=%d) was not announced to the registered callback", 2000+c.After-1)
				return
			}
		}
	})
	if msg != "" {
		return vrt.KeyedViolationf("overflow", "%s", msg)
	}
	return vrt.OK(rejectedBlocking >= 1, "park="+c.ParkIn, fmt.Sprintf("rejected-blocking=%d", min(rejectedBlocking, 3)), fmt.Sprintf("installed-while-full=%d", min(installedFull, 3)))
}

func firstDiff(a, b []int) int {
	for i := 0; i < len(a) && i < len(b); i++ {
		if a[i] != b[i] {
			return i
		}
	}
	return min(len(a), len(b))
}

func TestC04Overflow(t *testing.T) {
	curT = t
	vrt.Check(t, vrt.Prop[C04OCase]{
		ID: "C04", Name: "overflow",
		Rule: "the callback goroutine is parked in OnNewConfig or in a registered callback, 1+64+extra valid updates overflow the 64-slot callback queue (in a third of the cases only 64-k are queued, k >= the number of ops: the queue fills up to at most exactly its capacity and NOTHING may be dropped - every version reaches the callbacks, every rejection reaches OnWatchedError), then 1..8 valid / invalid / unstackable updates (blocking or not) arrive while it is still full, inside a synctest bubble; " +
			"oracle: every update is still installed or rejected exactly as without overflow - rejected ones leave view and serial unchanged and their blocking report returns the verifier's / stacking error (only the OnWatchedError call may be dropped), valid ones are installed with serial+1 and visible at once; a report that is never answered deadlocks the bubble; " +
			"non-trivial = at least one rejected blocking report while the queue is full; distinct = distinct case JSON",
		Assumptions: []string{"the queue capacity is 64 (dials.go); a larger capacity would only make the case a non-overflow one"},
		Gen:         genC04O, Run: func(c C04OCase) vrt.Verdict { return runC04O("C04", c) },
	})
}

func TestC08Overflow(t *testing.T) {
	curT = t
	vrt.Check(t, vrt.Prop[C04OCase]{
		ID: "C08", Name: "overflow",
		Rule: "the histories of C04/overflow (callback goroutine parked forever-until-released, callback queue overflowed, further valid / invalid / unstackable updates, blocking or not); " +
			"oracle (C08's clauses): a callback that blocks does not stop new configs from being installed and viewed, no report deadlocks (synctest deadlock detection), nothing panics, and after release and cancel no goroutine remains; " +
			"non-trivial = at least one rejected blocking report while the queue is full; distinct = distinct case JSON",
		Assumptions: []string{"see C04/overflow"},
		Gen:         genC04O, Run: func(c C04OCase) vrt.Verdict { return runC04O("C08", c) },
	})
}

func overflowProp(t *testing.T, id, oracle string) {
	curT = t
	vrt.Check(t, vrt.Prop[C04OCase]{
		ID: id, Name: "overflow",
		Rule: "the histories of C04/overflow (callback goroutine parked in OnNewConfig or a registered callback, 1+64+extra valid updates overflow the 64-slot callback queue, 1..8 further valid / invalid / unstackable updates (blocking or not) while it is full, release, 0..3 more valid updates) inside a synctest bubble; " +
			"oracle (" + id + "'s clauses): " + oracle + "; " +
			"non-trivial = at least one rejected blocking report while the queue is full; distinct = distinct case JSON",
		Assumptions: []string{"see C04/overflow"},
		Gen:         genC04O, Run: func(c C04OCase) vrt.Verdict { return runC04O(id, c) },
	})
}

func TestC05Overflow(t *testing.T) {
	overflowProp(t, "C05", "every valid report is stacked and installed with serial+1 and is what View returns at once, also when the callback queue is full (a monitor that waits for room in the queue stops stacking: synctest deadlock detection); rejected ones leave view and serial unchanged")
}

func TestC06Overflow(t *testing.T) {
	overflowProp(t, "C06", "the sequence of new configs handed to OnNewConfig and to the registered callback is strictly increasing in installation order (events may be dropped on overflow, never reordered), old is older than new in every call, and once the queue has drained the latest update is announced")
}

func TestC07Overflow(t *testing.T) {
	overflowProp(t, "C07", "every blocking report is answered while the queue is full: nil with the value in the view, or the verifier's / stacking error with the view unchanged (an unanswered report deadlocks the bubble)")
}
