package psim

import (
	"context"
	"errors"
	"fmt"
	"sync"
	"testing"
	"testing/synctest"

	"github.com/vimeo/dials"
	"pgregory.net/rapid"

	"verifharness/internal/fake"
	"verifharness/internal/vrt"
)

// C04OCase: the callback goroutine is parked in a callback, enough updates
// are installed to overflow the (64-slot) callback queue, and then valid,
// invalid and unstackable updates follow while the queue is still full.
type C04OCase struct {
	Extra int   `json:"extra"` // installs beyond the queue capacity
	Ops   []UOp `json:"ops"`
	// ParkIn: which callback parks the callback goroutine
	ParkIn string `json:"park_in"` // new | registered
}

const cbQueueCap = 64

func genC04O(t *rapid.T) C04OCase {
	c := C04OCase{Extra: rapid.IntRange(2, 8).Draw(t, "extra"), ParkIn: rapid.SampledFrom([]string{"new", "registered"}).Draw(t, "park_in")}
	n := rapid.IntRange(1, 8).Draw(t, "ops")
	for i := 0; i < n; i++ {
		op := UOp{Src: 0, N: 1000 + i, Block: rapid.IntRange(0, 3).Draw(t, "block") != 0}
		switch rapid.IntRange(0, 5).Draw(t, "kind") {
		case 0, 1:
			op.SetI = true
		case 2, 3:
			v := -(i + 1)
			op.Limit = &v
		}
		c.Ops = append(c.Ops, op)
	}
	return c
}

func runC04O(c C04OCase) (verdict vrt.Verdict) {
	if c.Extra < 0 || c.Extra > 64 || len(c.Ops) == 0 {
		return vrt.Discardf("bad case")
	}
	var msg string
	fail := func(format string, a ...any) {
		if msg == "" {
			msg = fmt.Sprintf(format, a...)
		}
	}
	defer func() {
		if p := recover(); p != nil {
			verdict = vrt.KeyedViolationf("panic", "panic / synctest failure (a blocking report that is never answered leaves the bubble deadlocked): %v", p)
		}
	}()
	rejectedBlocking, installedFull := 0, 0
	synctest.Test(curT, func(st *testing.T) {
		ctx, cancel := context.WithCancel(context.Background())
		gate := make(chan struct{})
		var once sync.Once
		release := func() { once.Do(func() { close(gate) }) }
		defer func() { release(); cancel(); synctest.Wait() }()
		uVerifyMu.Lock()
		uVerifyLog = nil
		uVerifyMu.Unlock()
		var mu sync.Mutex
		parked := false
		park := func() {
			mu.Lock()
			first := !parked
			parked = true
			mu.Unlock()
			if first {
				<-gate
			}
		}
		params := dials.Params[UCfg]{
			OnNewConfig: func(context.Context, *UCfg, *UCfg) {
				if c.ParkIn == "new" {
					park()
				}
			},
			OnWatchedError: func(context.Context, error, *UCfg, *UCfg) {},
		}
		w := &fake.Watcher{}
		d, err := params.Config(ctx, &UCfg{N: 0, I: ULabel{Text: "default"}}, w)
		if err != nil {
			fail("Config failed: %v", err)
			return
		}
		if c.ParkIn == "registered" {
			_, tok := d.ViewVersion()
			if unreg := d.RegisterCallback(ctx, tok, func(context.Context, *UCfg, *UCfg) { park() }); unreg == nil {
				fail("RegisterCallback failed")
				return
			}
			synctest.Wait()
		}
		pt := w.Type.Type()
		// overflow the callback queue: one event is held by the parked callback, 64 fit the queue
		for i := 0; i < 1+cbQueueCap+c.Extra; i++ {
			op := UOp{N: i + 1}
			if err := w.Args.BlockingReportNewValue(ctx, uLayer(pt, &op)); err != nil {
				fail("fill %d: blocking report of a valid value returned %v", i, err)
				return
			}
			if got := d.View().N; got != i+1 {
				fail("fill %d: a blocking report returned nil but the view holds N=%d, want %d (a callback that blocks must not stop new configs from being installed and viewed)", i, got, i+1)
				return
			}
		}
		synctest.Wait()
		mu.Lock()
		isParked := parked
		mu.Unlock()
		if !isParked {
			fail("harness: the callback goroutine never reached the parking callback")
			return
		}
		curView, curTok := d.ViewVersion()
		curSerial := serialOf(curTok)
		for i := range c.Ops {
			op := &c.Ops[i]
			step := fmt.Sprintf("op %d with the callback queue overflowed (n=%d setI=%v limit=%v block=%v)", i, op.N, op.SetI, op.Limit, op.Block)
			val := uLayer(pt, op)
			var rerr error
			if op.Block {
				rerr = w.Args.BlockingReportNewValue(ctx, val)
			} else {
				rerr = w.Args.ReportNewValue(ctx, val)
			}
			synctest.Wait()
			v, tok := d.ViewVersion()
			invalid := op.Limit != nil && *op.Limit < 0
			switch {
			case op.SetI || invalid:
				if v != curView || serialOf(tok) != curSerial {
					fail("%s: an update that must be rejected changed the view or the serial (%d -> %d)", step, curSerial, serialOf(tok))
					return
				}
				if op.Block {
					rejectedBlocking++
					if rerr == nil {
						fail("%s: the blocking report of a rejected update returned nil", step)
						return
					}
					if invalid && !op.SetI && !errors.Is(rerr, ErrInvalid) {
						fail("%s: the blocking report of an update that does not verify returned %v, want the verifier's error (also when the callback queue has overflowed)", step, rerr)
						return
					}
					if op.SetI && (errors.Is(rerr, ErrInvalid) || errors.Is(rerr, context.Canceled) || errors.Is(rerr, context.DeadlineExceeded)) {
						fail("%s: the blocking report of an update that cannot be stacked returned %v, want the stacking error", step, rerr)
						return
					}
				} else if rerr != nil {
					fail("%s: ReportNewValue returned %v", step, rerr)
					return
				}
			default:
				if rerr != nil {
					fail("%s: report of a valid value returned %v", step, rerr)
					return
				}
				if serialOf(tok) != curSerial+1 || v == curView || v.N != op.N {
					fail("%s: a valid update was not installed (serial %d -> %d, N=%d want %d)", step, curSerial, serialOf(tok), v.N, op.N)
					return
				}
				installedFull++
				curView, curSerial = v, serialOf(tok)
			}
		}
		release()
		synctest.Wait()
	})
	if msg != "" {
		return vrt.KeyedViolationf("overflow", "%s", msg)
	}
	return vrt.OK(rejectedBlocking >= 1, "park="+c.ParkIn, fmt.Sprintf("rejected-blocking=%d", min(rejectedBlocking, 3)), fmt.Sprintf("installed-while-full=%d", min(installedFull, 3)))
}

func TestC04Overflow(t *testing.T) {
	curT = t
	vrt.Check(t, vrt.Prop[C04OCase]{
		ID: "C04", Name: "overflow",
		Rule: "the callback goroutine is parked in OnNewConfig or in a registered callback, 1+64+extra valid updates overflow the 64-slot callback queue, then 1..8 valid / invalid / unstackable updates (blocking or not) arrive while it is still full, inside a synctest bubble; " +
			"oracle: every update is still installed or rejected exactly as without overflow - rejected ones leave view and serial unchanged and their blocking report returns the verifier's / stacking error (only the OnWatchedError call may be dropped), valid ones are installed with serial+1 and visible at once; a report that is never answered deadlocks the bubble; " +
			"non-trivial = at least one rejected blocking report while the queue is full; distinct = distinct case JSON",
		Assumptions: []string{"the queue capacity is 64 (dials.go); a larger capacity would only make the case a non-overflow one"},
		Gen:         genC04O, Run: runC04O,
	})
}

func TestC08Overflow(t *testing.T) {
	curT = t
	vrt.Check(t, vrt.Prop[C04OCase]{
		ID: "C08", Name: "overflow",
		Rule: "the histories of C04/overflow (callback goroutine parked forever-until-released, callback queue overflowed, further valid / invalid / unstackable updates, blocking or not); " +
			"oracle (C08's clauses): a callback that blocks does not stop new configs from being installed and viewed, no report deadlocks (synctest deadlock detection), nothing panics, and after release and cancel no goroutine remains; " +
			"non-trivial = at least one rejected blocking report while the queue is full; distinct = distinct case JSON",
		Assumptions: []string{"see C04/overflow"},
		Gen:         genC04O, Run: runC04O,
	})
}
