package psim

import (
	"fmt"
	"sort"
	"strings"
	"testing"

	"pgregory.net/rapid"

	"verifharness/internal/vrt"
)

var curT *testing.T

// runTagged executes a scenario and reports only violations whose tag belongs
// to the property under test; a violation of another property ends the
// scenario and is labelled, not reported (its own check reports it).
func runTagged(sc Scenario, nt func(*Result) bool, tags ...string) vrt.Verdict {
	curProp = ""
	if len(tags) == 1 {
		curProp = tags[0]
	}
	res := RunScenario(curT, &sc)
	if res.Malformed != "" {
		return vrt.Discardf("%s", res.Malformed)
	}
	var labels []string
	for l := range res.Labels {
		labels = append(labels, l)
	}
	sort.Strings(labels)
	labels = append(labels, fmt.Sprintf("watchers=%d", sc.NWatch), fmt.Sprintf("opts:skip=%v,delay=%v,suppress=%v", sc.Skip, sc.Delay, sc.Suppress))
	if res.Viol != nil {
		for _, tg := range tags {
			if strings.Contains(res.Viol.Tag, tg) {
				return vrt.KeyedViolationf(res.Viol.Tag, "%s", res.Viol.Msg)
			}
		}
		return vrt.OK(false, append(labels, "stopped-by-other-property:"+res.Viol.Tag)...)
	}
	return vrt.OK(nt(res), labels...)
}

var baseProfile = genProfile{
	optSkip: true, optDelay: true, optSuppress: true, globalCBs: 80,
	minWatch: 1, maxWatch: 3, maxStatic: 1, maxOps: 14,
	invalidPct: 25, blockPct: 40,
	wReport: 10, wView: 3, wEvents: 1, wReportErr: 0, wRegister: 2, wUnregister: 1, wReleaseCB: 0, wEnable: 1,
}

// ---------------------------------------------------------------- C05
func TestC05Controlled(t *testing.T) {
	curT = t
	p := baseProfile
	p.wEvents = 3
	p.maxOps = 25
	p.wDone = 2
	p.minWatch = 2
	p.wReportErr = 2 // error reports (plain, or wrapping a context error of the watcher's own) between value reports change nothing
	vrt.Check(t, vrt.Prop[Scenario]{
		ID: "C05", Name: "controlled",
		Rule: "histories of 1..25 operations (value reports from 2..3 fake watching sources, blocking or not, views, Events reads, registrations, EnableVerification, source error reports incl. ones wrapping context.Canceled / DeadlineExceeded, watchers that finish with Done - also twice - while others keep reporting) against a real Dials inside a testing/synctest bubble, quiescence (synctest.Wait) after every step; " +
			"oracle: after every step the view deep-equals the pure reference stack of the defaults and each source's latest reported value (or the last version that verified), every installed version's serial is its predecessor's + 1 (sampled at the store by a schedule point), View and ViewVersion agree, Events delivers exactly the model's pending version; " +
			"non-trivial = >=3 installs from >=2 sources; distinct = distinct scenario JSON",
		Assumptions: []string{"sources report values of the pointerified type they were given", "the harness observes stores through the verif-tagged schedule point mon.stored"},
		Gen:         func(t *rapid.T) Scenario { return genScenario(t, p) },
		Run: func(sc Scenario) vrt.Verdict {
			return runTagged(sc, func(r *Result) bool { return r.Installs >= 3 && sc.NWatch >= 2 }, "C05")
		},
	})
}

// ---------------------------------------------------------------- C04
func TestC04Controlled(t *testing.T) {
	curT = t
	p := baseProfile
	p.invalidPct = 35
	p.globalCBs = 90
	p.holds = []string{"verify", "stored", "reply"}
	p.holdPct = 35
	p.cancelCallerPct = 35 // abandoned blocking reports: the next report must still get ITS OWN answer
	p.blockPct = 60
	p.wRegister, p.wUnregister = 2, 1
	p.slowPct, p.wReleaseCB = 15, 1
	p.shutdownPct = 20 // the monitor exits with error events still queued behind a slow callback: they are still delivered
	p.minWatch = 0     // no watching source: no monitor; EnableVerification verifies the one and only config on every call
	p.wEnable = 2
	vrt.Check(t, vrt.Prop[Scenario]{
		ID: "C04", Name: "controlled",
		Rule: "histories of 1..14 operations whose stacked results alternate between valid and invalid (negative Limit), blocking and not, under every combination of SkipInitialVerification / DelayInitialVerification, with the monitor parked inside Verify, right after the store or right before it answers while readers view / register and while some blocking callers give up (context cancelled in the window); " +
			"oracle: exact reference model - a rejected update is never stored (store log), leaves view and serial unchanged, makes a blocking report return the verifier's error, and produces exactly one OnWatchedError(err, current, rejected) in order; the candidate is not visible while Verify runs; the stored pointer is the verified one; Config fails iff the initial stack is invalid and verification is active; " +
			"non-trivial = at least one accepted and one rejected update; distinct = distinct scenario JSON",
		Assumptions: []string{"the callback queue is kept below its capacity so the documented drop-on-overflow never triggers", "unstackable updates (errors from stacking itself) are exercised by TestC04Unstackable"},
		Gen:         func(t *rapid.T) Scenario { return genScenario(t, p) },
		Run: func(sc Scenario) vrt.Verdict {
			return runTagged(sc, func(r *Result) bool { return r.Installs >= 1 && r.Rejects >= 1 }, "C04")
		},
	})
}

// ---------------------------------------------------------------- C06
func TestC06Controlled(t *testing.T) {
	curT = t
	p := baseProfile
	p.invalidPct = 10
	p.globalCBs = 60
	p.holds = []string{"stored"}
	p.holdPct = 45
	p.wRegister, p.wUnregister, p.wReleaseCB = 6, 3, 3
	p.slowPct = 20
	p.maxOps = 18
	p.unregTwicePct = 15
	p.shutdownPct = 30 // the monitor exits (cancel / all Done) with events still queued behind a slow callback: they are still delivered
	vrt.Check(t, vrt.Prop[Scenario]{
		ID: "C06", Name: "controlled",
		Rule: "histories of installs, ViewVersion+RegisterCallback pairs with fresh / stale-by-k / zero serials, unregistrations (also twice), slow callbacks that park the callback goroutine, registrations forced into the window between 'version stored' and 'new-config event queued' by parking the monitor at the schedule point after the store, and (30%) a shutdown (cancel or every watcher Done) with events still queued behind a slow callback that is released afterwards; " +
			"oracle: a FIFO model of the callback goroutine yields the exact global call list (who, old, new by pointer identity): serialized, in install order, never a version <= the registered one, catch-up iff the serial came from ViewVersion and a newer version had been announced when the registration was processed, none after unregister returned true, no installed version skipped, old = immediate predecessor; " +
			"non-trivial = a registration processed inside the store/event window followed by >=2 installs; distinct = distinct scenario JSON",
		Assumptions: []string{"the callback queue is kept below its capacity (64) so the documented drop-on-overflow never triggers"},
		Gen:         func(t *rapid.T) Scenario { return genScenario(t, p) },
		Run: func(sc Scenario) vrt.Verdict {
			return runTagged(sc, func(r *Result) bool { return r.WindowRegs >= 1 && r.LaterInst >= 2 }, "C06")
		},
	})
}

// ---------------------------------------------------------------- C07
func TestC07Controlled(t *testing.T) {
	curT = t
	p := baseProfile
	p.blockPct = 75
	p.prePct = 12
	p.minWatch = 2
	p.holds = []string{"verify", "stored", "reply"}
	p.holdPct = 40
	p.cancelCallerPct = 70
	p.wRegister, p.wUnregister = 1, 0
	p.wDone = 1 // a watcher finishes while the others keep reporting: their blocking reports are still answered
	vrt.Check(t, vrt.Prop[Scenario]{
		ID: "C07", Name: "controlled",
		Rule: "blocking and non-blocking reports from 2..3 sources with the caller's context live, cancelled before submission, or cancelled while the monitor is parked inside Verify / after the store / right before it answers the reply channel; " +
			"oracle: nil => the view at return is the stack containing the reported value (exact model); failing verification => the verifier's error and an unchanged view; context ended first => a context error, and afterwards the monitor is back in its loop and serves the next report (loop counter from a schedule point; synctest deadlock detection); " +
			"non-trivial = a caller cancelled inside a window or a rejected blocking report; distinct = distinct scenario JSON",
		Assumptions: []string{"a report whose context is already cancelled may or may not be submitted (both select cases are ready); the model follows what the monitor observably did"},
		Gen:         func(t *rapid.T) Scenario { return genScenario(t, p) },
		Run: func(sc Scenario) vrt.Verdict {
			return runTagged(sc, func(r *Result) bool {
				for l := range r.Labels {
					if len(l) > 26 && l[:26] == "caller-cancelled-in-window" {
						return true
					}
				}
				return r.Labels["blocking-report-rejected"]
			}, "C07")
		},
	})
}

// ---------------------------------------------------------------- C09
func TestC09Controlled(t *testing.T) {
	curT = t
	p := baseProfile
	p.optSkip = false
	p.forceDelay = false
	p.minWatch = 0
	p.globalCBs = 90
	p.invalidPct = 30
	p.wEnable, p.wReportErr = 5, 4
	p.wRegister, p.wUnregister = 1, 0
	p.maxOps = 12
	p.shutdownPct = 20 // every watcher finishes (or the context ends) and EnableVerification is called afterwards
	p.lateOps = []string{"enable", "enable", "view"}
	p.slowPct, p.wReleaseCB = 35, 1 // a lagging callback goroutine: what is withheld is decided when an event is queued, not when it is delivered
	p.wRegister = 3
	vrt.Check(t, vrt.Prop[Scenario]{
		ID: "C09", Name: "controlled",
		Rule: "all four combinations of DelayInitialVerification x CallGlobalCallbacksAfterVerificationEnabled (delay drawn with probability 2/3), 0..3 watching sources, sequences of valid / invalid reports, source error reports and repeated EnableVerification calls in any order, in a fifth of the histories followed by a shutdown (cancel, or every watcher Done) and further EnableVerification calls; " +
			"oracle: exact state machine over the Verify log (no Verify before the first enable; an enable verifies exactly the installed pointer once; success returns that config and serial and every later re-stack is verified; failure returns the error and leaves the delay in force), and the exact global-callback list (OnNewConfig and OnWatchedError incl. source errors withheld iff delay in force AND the suppress option); an enable after shutdown while the delay is still in force never reports success (nothing verified); " +
			"non-trivial = an enable that fails and one that succeeds, or a source error; distinct = distinct scenario JSON",
		Assumptions: []string{"re-stack errors while callbacks are suppressed follow the same rule as source errors (the statement says global callbacks are withheld only in that state)"},
		Gen: func(t *rapid.T) Scenario {
			q := p
			q.optDelay = false
			q.forceDelay = rapid.IntRange(0, 2).Draw(t, "delay") != 0
			return genScenario(t, q)
		},
		Run: func(sc Scenario) vrt.Verdict {
			return runTagged(sc, func(r *Result) bool {
				se := false
				for l := range r.Labels {
					if len(l) > 13 && l[:13] == "source-error:" {
						se = true
					}
				}
				return (r.Labels["enable:failed"] && r.Labels["enable:succeeded"]) || se
			}, "C09")
		},
	})
}

// ---------------------------------------------------------------- C08 (controlled part)
func TestC08Shutdown(t *testing.T) {
	curT = t
	p := baseProfile
	p.shutdownPct = 100
	p.holds = []string{"verify", "stored", "reply"}
	p.holdPct = 25
	p.cancelCallerPct = 70
	p.prePct = 8
	p.lateOps = []string{"register", "unregister", "unregister", "enable", "report", "reportblock", "reporterr", "done", "view"}
	p.wRegister, p.wUnregister, p.wReleaseCB = 4, 2, 1
	p.unregTwicePct = 40
	p.slowPct = 15
	p.maxOps = 10
	p.wDone = 1 // a watcher finishes (also twice) before the shutdown: the monitor lives on while another one watches
	vrt.Check(t, vrt.Prop[Scenario]{
		ID: "C08", Name: "shutdown",
		Rule: "controlled histories that end in a shutdown (Config context cancelled, or every watcher calling Done in any order) followed by 1..6 late API calls of every kind (register, unregister - also twice -, enable, report, blocking report, error report, Done), with callbacks that block; each late call gets a 1h virtual-time context; " +
			"oracle: no panic, the monitor goroutine exits, every late call returns within its own context's virtual deadline with its failure indication, and when the bubble's root returns no goroutine of the library remains (synctest leak detection); " +
			"non-trivial = at least one late call was issued after shutdown; distinct = distinct scenario JSON",
		Assumptions: []string{"EnableVerification on a Dials created without DelayInitialVerification is a documented no-op that may succeed after shutdown"},
		Gen:         func(t *rapid.T) Scenario { return genScenario(t, p) },
		Run: func(sc Scenario) vrt.Verdict {
			return runTagged(sc, func(r *Result) bool {
				for l := range r.Labels {
					if len(l) > 5 && l[:5] == "late:" {
						return true
					}
				}
				return false
			}, "C08")
		},
	})
}
