package psim

import (
	"context"
	"fmt"
	"io"
	"reflect"
	"strings"
	"testing"

	"github.com/vimeo/dials"
	"github.com/vimeo/dials/sourcewrap"
	"github.com/vimeo/dials/tagformat"
	"github.com/vimeo/dials/tagformat/caseconversion"
	"pgregory.net/rapid"

	"verifharness/internal/vrt"
)

// C20 "errors are propagated", on the type-translation path: a dials tag that
// is not written in the casing the tag-reformatting wrapper was told to expect
// makes the casing decoder fail; the wrapper must hand that error to its
// caller (and never call the wrapped source / decoder), not rename the field
// after something else.

var tagCasings = []struct {
	name string
	dec  caseconversion.DecodeCasingFunc
	enc  caseconversion.EncodeCasingFunc
}{
	{"lower_snake", caseconversion.DecodeLowerSnakeCase, caseconversion.EncodeLowerSnakeCase},
	{"UPPER_SNAKE", caseconversion.DecodeUpperSnakeCase, caseconversion.EncodeUpperSnakeCase},
	{"kebab", caseconversion.DecodeKebabCase, caseconversion.EncodeKebabCase},
	{"lowerCamel", caseconversion.DecodeLowerCamelCase, caseconversion.EncodeLowerCamelCase},
	{"UpperCamel", caseconversion.DecodeUpperCamelCase, caseconversion.EncodeUpperCamelCase},
}

type BTField struct {
	Words  []string `json:"words"`
	Casing int      `json:"casing"` // casing the tag is written in; -1 = no dials tag
	Where  string   `json:"where"`  // root | nested | pnested
	// Sibling: another tag with the very same name text is written BEFORE the
	// dials tag (yaml:"x" dials:"x"); it is none of the wrapper's business
	Sibling bool `json:"sibling,omitempty"`
}

type C20TagCase struct {
	Decode int       `json:"decode"` // casing the wrapper is told the tags are in
	Encode int       `json:"encode"`
	Entry  string    `json:"entry"` // source | reformat-source | decoder
	Fields []BTField `json:"fields"`
}

var btWords = []string{"auth", "token", "port", "max", "conns", "host", "name", "retry", "limit", "zone"}

func genC20Tag(t *rapid.T) C20TagCase {
	c := C20TagCase{Decode: rapid.IntRange(0, len(tagCasings)-1).Draw(t, "decode"), Encode: rapid.IntRange(0, len(tagCasings)-1).Draw(t, "encode"),
		Entry: rapid.SampledFrom([]string{"source", "reformat-source", "decoder"}).Draw(t, "entry")}
	n := rapid.IntRange(1, 4).Draw(t, "fields")
	for i := 0; i < n; i++ {
		f := BTField{Where: rapid.SampledFrom([]string{"root", "root", "nested", "pnested"}).Draw(t, "where")}
		for j, k := 0, rapid.IntRange(1, 3).Draw(t, "words"); j < k; j++ {
			f.Words = append(f.Words, rapid.SampledFrom(btWords).Draw(t, "word"))
		}
		switch rapid.IntRange(0, 5).Draw(t, "tag") {
		case 0:
			f.Casing = -1
		case 1, 2, 3:
			f.Casing = c.Decode // written as announced
		default:
			f.Casing = rapid.IntRange(0, len(tagCasings)-1).Draw(t, "casing")
		}
		f.Sibling = f.Casing >= 0 && rapid.IntRange(0, 2).Draw(t, "sibling") == 0
		c.Fields = append(c.Fields, f)
	}
	return c
}

type recSource struct {
	called bool
	typ    reflect.Type
}

func (r *recSource) Value(_ context.Context, t *dials.Type) (reflect.Value, error) {
	r.called, r.typ = true, t.Type()
	return reflect.New(t.Type()).Elem(), nil
}

type recDecoder struct{ recSource }

func (r *recDecoder) Decode(_ io.Reader, t *dials.Type) (reflect.Value, error) {
	return r.Value(context.Background(), t)
}

func runC20Tag(c C20TagCase) (verdict vrt.Verdict) {
	if c.Decode < 0 || c.Decode >= len(tagCasings) || c.Encode < 0 || c.Encode >= len(tagCasings) || len(c.Fields) == 0 || len(c.Fields) > 6 {
		return vrt.Discardf("bad case")
	}
	defer func() {
		if p := recover(); p != nil {
			verdict = vrt.KeyedViolationf("panic", "panic: %v", p)
		}
	}()
	dec, enc := tagCasings[c.Decode], tagCasings[c.Encode]
	// build the config type; remember for every tagged field what the casing decoder says about its tag
	var root, nested, pnested []reflect.StructField
	var wantErr error
	var badTag string
	siblings := map[string]string{} // Go field name -> the sibling tag's text, which must survive untouched
	type exp struct{ path, key string }
	var expects []exp
	for i, f := range c.Fields {
		if f.Casing < -1 || f.Casing >= len(tagCasings) || len(f.Words) == 0 || len(f.Words) > 4 {
			return vrt.Discardf("bad field")
		}
		for _, w := range f.Words {
			if w == "" || strings.ToLower(w) != w || strings.ContainsAny(w, "_- ") {
				return vrt.Discardf("bad word")
			}
		}
		sf := reflect.StructField{Name: fmt.Sprintf("F%d", i) + caseconversion.EncodeUpperCamelCase(f.Words), Type: reflect.TypeOf("")}
		var words caseconversion.DecodedIdentifier
		if f.Casing >= 0 {
			tag := tagCasings[f.Casing].enc(f.Words)
			sf.Tag = reflect.StructTag(fmt.Sprintf(`dials:"%s"`, tag))
			if f.Sibling {
				sf.Tag = reflect.StructTag(fmt.Sprintf(`yaml:"%s" dials:"%s"`, tag, tag))
				siblings[sf.Name] = tag
			}
			w, err := dec.dec(tag)
			if err != nil && wantErr == nil {
				wantErr, badTag = err, tag
			}
			words = w
		} else {
			w, err := caseconversion.DecodeGoCamelCase(sf.Name)
			if err != nil {
				return vrt.Discardf("field name does not decode: %v", err)
			}
			words = w
		}
		key := ""
		if len(words) > 0 {
			key = enc.enc(words)
		}
		switch f.Where {
		case "root":
			root = append(root, sf)
			expects = append(expects, exp{sf.Name, key})
		case "nested":
			nested = append(nested, sf)
			expects = append(expects, exp{"Nested." + sf.Name, key})
		case "pnested":
			pnested = append(pnested, sf)
			expects = append(expects, exp{"PNested." + sf.Name, key})
		default:
			return vrt.Discardf("bad placement")
		}
	}
	if len(nested) > 0 {
		root = append(root, reflect.StructField{Name: "Nested", Type: reflect.StructOf(nested), Tag: reflect.StructTag(`dials:"` + dec.enc([]string{"nested"}) + `"`)})
	}
	if len(pnested) > 0 {
		root = append(root, reflect.StructField{Name: "PNested", Type: reflect.PointerTo(reflect.StructOf(pnested)), Tag: reflect.StructTag(`dials:"` + dec.enc([]string{"pnested"}) + `"`)})
	}
	cfgT := reflect.StructOf(root)
	mangler := tagformat.NewTagReformattingMangler("dials", dec.dec, enc.enc)
	var rec *recSource
	var err error
	switch c.Entry {
	case "source":
		rs := &recSource{}
		rec = rs
		_, err = sourcewrap.NewTransformingSource(rs, mangler).Value(context.Background(), dials.NewType(cfgT))
	case "reformat-source":
		rs := &recSource{}
		rec = rs
		_, err = tagformat.ReformatDialsTagSource(rs, dec.dec, enc.enc).Value(context.Background(), dials.NewType(cfgT))
	case "decoder":
		rd := &recDecoder{}
		rec = &rd.recSource
		_, err = sourcewrap.NewTransformingDecoder(rd, mangler).Decode(strings.NewReader("{}"), dials.NewType(cfgT))
	default:
		return vrt.Discardf("bad entry")
	}
	labels := []string{"entry=" + c.Entry, "decode=" + dec.name, fmt.Sprintf("bad-tag=%v", wantErr != nil)}
	if wantErr != nil {
		if err == nil {
			return vrt.KeyedViolationf("bad-tag-accepted", "the tag %q is not %s (the casing decoder says: %v), yet the %s wrapper returned no error (wrapped source / decoder called: %v): the translation error is not propagated", badTag, dec.name, wantErr, c.Entry, rec.called)
		}
		if rec.called {
			return vrt.KeyedViolationf("bad-tag-inner-called", "the wrapper reported %v but still called the wrapped source / decoder", err)
		}
		return vrt.OK(true, labels...)
	}
	if err != nil {
		return vrt.KeyedViolationf("good-tags-rejected", "every tag is valid %s, yet the %s wrapper returned %v", dec.name, c.Entry, err)
	}
	if !rec.called {
		return vrt.KeyedViolationf("inner-not-called", "the wrapper returned nil without calling the wrapped source / decoder")
	}
	// the type handed down carries the re-encoded tags
	for _, e := range expects {
		t := rec.typ
		var sf reflect.StructField
		ok := true
		for _, name := range strings.Split(e.path, ".") {
			for t.Kind() == reflect.Pointer {
				t = t.Elem()
			}
			if t.Kind() != reflect.Struct {
				ok = false
				break
			}
			if sf, ok = t.FieldByName(name); !ok {
				break
			}
			t = sf.Type
		}
		if !ok {
			return vrt.KeyedViolationf("field-lost", "field %s is missing from the type handed to the wrapped source / decoder", e.path)
		}
		if want, has := siblings[sf.Name]; has && sf.Tag.Get("yaml") != want {
			return vrt.KeyedViolationf("sibling-tag-rewritten", "field %s: the yaml tag written next to the dials tag was %q and is %q in the type handed down", e.path, want, sf.Tag.Get("yaml"))
		}
		if got := sf.Tag.Get("dials"); got != e.key {
			return vrt.KeyedViolationf("wrong-key", "field %s: the type handed down has dials tag %q, want %q (%s re-encoded as %s)", e.path, got, e.key, dec.name, enc.name)
		}
	}
	return vrt.OK(len(c.Fields) >= 2, labels...)
}

func TestC20BadTag(t *testing.T) {
	vrt.Check(t, vrt.Prop[C20TagCase]{
		ID: "C20", Name: "badtag",
		Rule: "reflect-built config types with 1..4 string fields at the root, in a nested struct or behind a pointer to one, each untagged or carrying a dials tag of 1..3 words written in one of five casings (a third of them preceded by a yaml tag with the same text, which must stay as written), behind the tag-reformatting wrapper told to expect one of the five casings, through three entry points (NewTransformingSource, ReformatDialsTagSource, NewTransformingDecoder); " +
			"oracle: if the announced casing's decoder rejects any tag, the wrapper's Value / Decode returns an error and never calls the wrapped source / decoder; otherwise it returns nil, calls it, and the type handed down carries for every field the tag (or Go name) re-encoded in the target casing; " +
			"non-trivial = a rejected tag, or at least two fields; distinct = distinct case JSON",
		Assumptions: []string{"whether a tag is valid in a casing is read off the library's own casing decoder (C19 checks those); this check is about the wrapper propagating that verdict"},
		NoJournal:   true,
		Gen:         genC20Tag, Run: runC20Tag,
	})
}
