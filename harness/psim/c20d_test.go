package psim

import (
	"context"
	"errors"
	"fmt"
	"io"
	"reflect"
	"strings"
	"testing"
	"time"

	"github.com/vimeo/dials"
	"github.com/vimeo/dials/ptrify"
	"github.com/vimeo/dials/sourcewrap"
	"pgregory.net/rapid"

	"verifharness/internal/shape"
	"verifharness/internal/vrt"
)

// Further config types for the wrapped-DECODER check: the same dials tag
// vocabulary as WCfg (so fillTranslated can write them), other Go names,
// orders and subsets.
type WCfgB struct {
	Inner WSub     `dials:"sub"`
	Items []string `dials:"list"`
	Count int      `dials:"num"`
}

type WCfgC struct {
	Label string              `dials:"name"`
	Wait  time.Duration       `dials:"dur"`
	Keys  map[string]struct{} `dials:"set"`
	Num   int                 `dials:"num"`
}

var decTypes = []struct {
	name string
	mk   func() any // defaults (pointer to struct)
}{
	{"WCfg", func() any { return wStack(nil) }},
	{"WCfgB", func() any { return &WCfgB{Inner: WSub{Depth: 2, Tag: "b"}, Items: []string{"i"}, Count: 7} }},
	{"WCfgC", func() any { return &WCfgC{Label: "c", Wait: time.Minute, Num: 3} }},
}

type DecodeStep struct {
	Type int    `json:"type"`
	L    WLayer `json:"l"`
	Err  bool   `json:"err,omitempty"` // the inner decoder fails
}

type C20DecCase struct {
	Chain int          `json:"chain"`
	Steps []DecodeStep `json:"steps"`
}

func genC20Dec(t *rapid.T) C20DecCase {
	c := C20DecCase{Chain: rapid.IntRange(0, 8).Draw(t, "chain")}
	n := rapid.IntRange(1, 6).Draw(t, "steps")
	for i := 0; i < n; i++ {
		c.Steps = append(c.Steps, DecodeStep{Type: rapid.IntRange(0, len(decTypes)-1).Draw(t, "type"), L: genWLayer(t, i), Err: rapid.IntRange(0, 7).Draw(t, "err") == 0})
	}
	return c
}

// fillingDecoder is the wrapped decoder: it "decodes" the layer it currently
// holds into whatever (translated) type it is handed.
type fillingDecoder struct {
	l     WLayer
	err   error
	asked []reflect.Type
}

func (d *fillingDecoder) Decode(r io.Reader, t *dials.Type) (reflect.Value, error) {
	_, _ = io.ReadAll(r)
	d.asked = append(d.asked, t.Type())
	if d.err != nil {
		return reflect.Value{}, d.err
	}
	v := reflect.New(t.Type()).Elem()
	if err := fillTranslated(v, "", d.l); err != nil {
		return reflect.Value{}, err
	}
	return v, nil
}

// fillingSource is the same for a wrapped (non-watching) SOURCE.
type fillingSource struct {
	l   WLayer
	err error
}

func (s *fillingSource) Value(_ context.Context, t *dials.Type) (reflect.Value, error) {
	if s.err != nil {
		return reflect.Value{}, s.err
	}
	v := reflect.New(t.Type()).Elem()
	if err := fillTranslated(v, "", s.l); err != nil {
		return reflect.Value{}, err
	}
	return v, nil
}

func runC20Dec(c C20DecCase) (verdict vrt.Verdict) {
	if len(c.Steps) == 0 {
		return vrt.Discardf("no steps")
	}
	chain, chainName := manglerChain(c.Chain)
	defer func() {
		if p := recover(); p != nil {
			verdict = vrt.KeyedViolationf("panic", "panic in a wrapped decoder: %v", p)
		}
	}()
	inner := &fillingDecoder{}
	wrapped := sourcewrap.NewTransformingDecoder(inner, chain...)
	innerSrc := &fillingSource{}
	wrappedSrc := sourcewrap.NewTransformingSource(innerSrc, chain...)
	typesSeen := map[int]bool{}
	switched := 0
	prev := -1
	for i, st := range c.Steps {
		if st.Type < 0 || st.Type >= len(decTypes) {
			return vrt.Discardf("bad type")
		}
		dt := decTypes[st.Type]
		def := reflect.ValueOf(dt.mk())
		pt := ptrify.Pointerify(def.Type().Elem(), def.Elem())
		inner.l, inner.err = st.L, nil
		if st.Err {
			inner.err = errInner
		}
		step := fmt.Sprintf("decode %d of %d (type %s, chain %s, inner error=%v)", i+1, len(c.Steps), dt.name, chainName, st.Err)
		got, err := wrapped.Decode(strings.NewReader("ignored"), dials.NewType(pt))
		if st.Err {
			if err == nil || !errors.Is(err, errInner) {
				return vrt.KeyedViolationf("decoder", "%s: the wrapped decoder returned %v, want the inner decoder's error", step, err)
			}
		} else {
			if err != nil {
				return vrt.KeyedViolationf("decoder", "%s: the wrapped decoder failed: %v", step, err)
			}
			if got.Kind() == reflect.Pointer {
				got = got.Elem()
			}
			if got.Type() != pt {
				return vrt.KeyedViolationf("decoder", "%s: the wrapped decoder returned a %s, Dials asked for %s", step, got.Type(), pt)
			}
			want := wNative(pt, st.L)
			if df := shape.Diff(want, got); df != "" {
				return vrt.KeyedViolationf("decoder", "%s: the value behind the wrapper differs from what the inner decoder would have produced natively at %s (want vs got)", step, df)
			}
		}
		// the same through ONE wrapped source value
		innerSrc.l, innerSrc.err = st.L, inner.err
		sgot, serr := wrappedSrc.Value(context.Background(), dials.NewType(pt))
		if st.Err {
			if serr == nil || !errors.Is(serr, errInner) {
				return vrt.KeyedViolationf("source", "%s: the wrapped source returned %v, want the inner source's error", step, serr)
			}
		} else {
			if serr != nil {
				return vrt.KeyedViolationf("source", "%s: the wrapped source failed: %v", step, serr)
			}
			if sgot.Kind() == reflect.Pointer {
				sgot = sgot.Elem()
			}
			if sgot.Type() != pt {
				return vrt.KeyedViolationf("source", "%s: the wrapped source returned a %s, Dials asked for %s", step, sgot.Type(), pt)
			}
			if df := shape.Diff(wNative(pt, st.L), sgot); df != "" {
				return vrt.KeyedViolationf("source", "%s: the value behind the wrapped source differs from the natively filled one at %s (want vs got)", step, df)
			}
		}
		typesSeen[st.Type] = true
		if prev >= 0 && prev != st.Type {
			switched++
		}
		prev = st.Type
	}
	return vrt.OK(switched >= 1 && chainChangesTypes(c.Chain), "chain="+chainName, fmt.Sprintf("types=%d", len(typesSeen)), fmt.Sprintf("switches=%d", min(switched, 3)))
}

func TestC20Decoder(t *testing.T) {
	vrt.Check(t, vrt.Prop[C20DecCase]{
		ID: "C20", Name: "decoder", NoJournal: true,
		Rule: "ONE sourcewrap.NewTransformingDecoder value and ONE NewTransformingSource value (one of the 9 mangler lists of C20/transforming) around an inner decoder / source that fills whatever translated type it is handed, used for 1..6 decodes in a row into three different config types (same dials-tag vocabulary, different Go names / field orders / subsets), the inner decoder failing in some; " +
			"oracle: each result has exactly the type Dials asked for in THAT call and equals the natively filled value of that type; an inner error comes back as that error; " +
			"non-trivial = a type-changing mangler list and at least one switch of config type between consecutive decodes; distinct = distinct case JSON",
		Assumptions: []string{"the inner decoder honours the contract: it returns values of the type it was given"},
		Gen:         genC20Dec, Run: runC20Dec,
	})
}
