package psim

import (
	"context"
	"fmt"
	"reflect"
	"runtime"
	"sync"
	"testing"
	"testing/synctest"

	"github.com/vimeo/dials"
	"pgregory.net/rapid"

	"verifharness/internal/fake"
	"verifharness/internal/vrt"
)

// C07EvCase: blocking reports race with goroutines that drain Events().  The
// goroutines of a synctest bubble run truly in parallel; if the monitor ever
// waits on the Events channel (or on anything but its own queue) while a
// blocking report waits for its answer, every goroutine of the bubble ends up
// durably blocked and synctest reports the deadlock - no wall-clock timeout is
// involved in the verdict.
type C07EvCase struct {
	Readers int  `json:"readers"`
	Reports int  `json:"reports"`
	Views   bool `json:"views,omitempty"` // a further goroutine spins on ViewVersion
}

func genC07Ev(t *rapid.T) C07EvCase {
	return C07EvCase{Readers: rapid.IntRange(1, 4).Draw(t, "readers"), Reports: rapid.IntRange(50, 600).Draw(t, "reports"), Views: rapid.Bool().Draw(t, "views")}
}

func runC07Ev(c C07EvCase) (verdict vrt.Verdict) {
	if c.Readers < 1 || c.Readers > 8 || c.Reports < 1 || c.Reports > 5000 {
		return vrt.Discardf("bad case")
	}
	var msg string
	fail := func(format string, a ...any) {
		if msg == "" {
			msg = fmt.Sprintf(format, a...)
		}
	}
	defer func() {
		if p := recover(); p != nil {
			verdict = vrt.KeyedViolationf("deadlock", "panic / synctest failure (a monitor that waits on the Events channel while a blocking report waits for its answer leaves every goroutine of the bubble blocked): %v", p)
		}
	}()
	received := 0
	synctest.Test(curT, func(st *testing.T) {
		ctx, cancel := context.WithCancel(context.Background())
		var wg sync.WaitGroup
		defer func() { cancel(); wg.Wait(); synctest.Wait() }()
		w := &fake.Watcher{}
		d, err := dials.Config(ctx, &PlainCfg{N: 0, Text: "default"}, w)
		if err != nil {
			fail("Config failed: %v", err)
			return
		}
		var mu sync.Mutex
		for i := 0; i < c.Readers; i++ {
			wg.Add(1)
			go func() {
				defer wg.Done()
				last := -1
				for {
					select {
					case v := <-d.Events():
						mu.Lock()
						received++
						if v.N < last {
							fail("an Events reader received N=%d after N=%d", v.N, last)
						}
						mu.Unlock()
						last = v.N
					case <-ctx.Done():
						return
					}
				}
			}()
		}
		if c.Views {
			wg.Add(1)
			go func() {
				defer wg.Done()
				// bounded: a goroutine that spins forever would keep the bubble
				// from ever being reported as deadlocked
				for i := 0; i < c.Reports*20 && ctx.Err() == nil; i++ {
					d.ViewVersion()
					runtime.Gosched()
				}
			}()
		}
		pt := w.Type.Type()
		for i := 1; i <= c.Reports; i++ {
			v := reflect.New(pt).Elem()
			n := i
			v.FieldByName("N").Set(reflect.ValueOf(&n))
			if err := w.Args.BlockingReportNewValue(ctx, v); err != nil {
				fail("blocking report %d (live context) returned %v", i, err)
				return
			}
			if got := d.View().N; got != i {
				fail("blocking report %d returned nil but the view holds N=%d", i, got)
				return
			}
		}
	})
	if msg != "" {
		return vrt.KeyedViolationf("events-race", "%s", msg)
	}
	return vrt.OK(received >= 1, fmt.Sprintf("readers=%d", c.Readers), fmt.Sprintf("views=%v", c.Views), fmt.Sprintf("reports>=%d", c.Reports/200*200))
}

func TestC07EventsRace(t *testing.T) {
	curT = t
	vrt.Check(t, vrt.Prop[C07EvCase]{
		ID: "C07", Name: "eventsrace",
		Rule: "50..600 back-to-back blocking reports of valid values from one watcher while 1..4 goroutines drain Events() (and optionally one spins on ViewVersion), all inside one synctest bubble whose goroutines run in parallel on the real scheduler; " +
			"oracle: every blocking report returns nil with its value in the view; no reader sees the stream go backwards; the verdict for a stuck monitor comes from synctest's deadlock detection (every goroutine durably blocked), not from a timeout; " +
			"non-trivial = at least one version was received from Events; distinct = distinct case JSON (the schedule is sampled, so equal cases are still different runs)",
		Assumptions: []string{"schedule-dependent: the interleavings are sampled by the Go scheduler, not enumerated; a failure may not replay from the case alone, the journal holds the case and the message"},
		Gen:         genC07Ev, Run: runC07Ev,
	})
}

func eventsRaceProp(t *testing.T, id, oracle string) {
	curT = t
	vrt.Check(t, vrt.Prop[C07EvCase]{
		ID: id, Name: "eventsrace",
		Rule: "the histories of C07/eventsrace (50..600 back-to-back blocking reports while 1..4 goroutines drain Events(), all inside one synctest bubble whose goroutines run in parallel); " +
			"oracle (" + id + "'s clauses): " + oracle + "; " +
			"non-trivial = at least one version was received from Events; distinct = distinct case JSON (the schedule is sampled)",
		Assumptions: []string{"see C07/eventsrace"},
		Gen:         genC07Ev, Run: runC07Ev,
	})
}

func TestC08EventsRace(t *testing.T) {
	eventsRaceProp(t, "C08", "no interleaving of reports and Events readers stops the monitor (synctest deadlock detection), nothing panics, and after cancel no goroutine remains")
}

func TestC05EventsRace(t *testing.T) {
	eventsRaceProp(t, "C05", "every report is stacked (the view holds report i when report i returns) and no Events reader sees the stream go backwards, whatever the readers' timing")
}
