package psim

import (
	"context"
	"errors"
	"fmt"
	"reflect"
	"sync"
	"testing"
	"testing/synctest"

	"github.com/vimeo/dials"
	"pgregory.net/rapid"

	"verifharness/internal/fake"
	"verifharness/internal/vrt"
)

// PlainCfg deliberately has NO Verify method: the delay / suppression state
// machine of C09 must behave the same for it (ez uses Delay+Suppress for every
// config type).
type PlainCfg struct {
	N    int
	Text string
}

type POp struct {
	Kind  string `json:"kind"` // value | error | enable
	Src   int    `json:"src,omitempty"`
	Block bool   `json:"block,omitempty"`
}

type C09PCase struct {
	Delay    bool  `json:"delay,omitempty"`
	Suppress bool  `json:"suppress,omitempty"`
	Skip     bool  `json:"skip,omitempty"`
	NWatch   int   `json:"n_watch"`
	Ops      []POp `json:"ops"`
}

func genC09P(t *rapid.T) C09PCase {
	c := C09PCase{Delay: rapid.IntRange(0, 3).Draw(t, "delay") != 0, Suppress: rapid.IntRange(0, 3).Draw(t, "suppress") != 0,
		Skip: rapid.IntRange(0, 5).Draw(t, "skip") == 0, NWatch: rapid.IntRange(0, 2).Draw(t, "n_watch")}
	n := rapid.IntRange(1, 10).Draw(t, "ops")
	for i := 0; i < n; i++ {
		op := POp{}
		k := rapid.IntRange(0, 9).Draw(t, "kind")
		switch {
		case c.NWatch == 0 || k < 2:
			op.Kind = "enable"
		case k < 6:
			op.Kind = "value"
			op.Src = rapid.IntRange(0, c.NWatch-1).Draw(t, "src")
			op.Block = rapid.Bool().Draw(t, "block")
		default:
			op.Kind = "error"
			op.Src = rapid.IntRange(0, c.NWatch-1).Draw(t, "src")
		}
		c.Ops = append(c.Ops, op)
	}
	return c
}

var errPlainSource = errors.New("plain source error")

func runC09P(c C09PCase) (verdict vrt.Verdict) {
	if c.NWatch < 0 || c.NWatch > 2 || len(c.Ops) == 0 {
		return vrt.Discardf("bad case")
	}
	for _, op := range c.Ops {
		if op.Kind != "enable" && (op.Src < 0 || op.Src >= c.NWatch) {
			return vrt.Discardf("bad op")
		}
	}
	var msg string
	fail := func(format string, a ...any) {
		if msg == "" {
			msg = fmt.Sprintf(format, a...)
		}
	}
	defer func() {
		if p := recover(); p != nil {
			verdict = vrt.KeyedViolationf("panic", "panic / synctest failure: %v", p)
		}
	}()
	deliveredAfterEnable, withheld, enables := 0, 0, 0
	synctest.Test(curT, func(st *testing.T) {
		ctx, cancel := context.WithCancel(context.Background())
		defer func() { cancel(); synctest.Wait() }()
		type errRec struct {
			err      error
			old, new *PlainCfg
		}
		var mu sync.Mutex
		var errs []errRec
		var news [][2]*PlainCfg
		params := dials.Params[PlainCfg]{SkipInitialVerification: c.Skip, DelayInitialVerification: c.Delay, CallGlobalCallbacksAfterVerificationEnabled: c.Suppress,
			OnWatchedError: func(_ context.Context, err error, o, n *PlainCfg) {
				mu.Lock()
				errs = append(errs, errRec{err, o, n})
				mu.Unlock()
			},
			OnNewConfig: func(_ context.Context, o, n *PlainCfg) {
				mu.Lock()
				news = append(news, [2]*PlainCfg{o, n})
				mu.Unlock()
			}}
		ws := make([]*fake.Watcher, c.NWatch)
		srcs := make([]dials.Source, c.NWatch)
		for i := range ws {
			ws[i] = &fake.Watcher{}
			srcs[i] = ws[i]
		}
		d, err := params.Config(ctx, &PlainCfg{N: -1, Text: "default"}, srcs...)
		if err != nil {
			fail("Config failed: %v", err)
			return
		}
		synctest.Wait()
		cur, curTok := d.ViewVersion()
		curSerial := serialOf(curTok)
		delayInForce := c.Delay
		slotN := make([]int, c.NWatch)
		for i := range slotN {
			slotN[i] = -1
		}
		for i, op := range c.Ops {
			step := fmt.Sprintf("op %d (%s src %d block=%v; delay in force=%v, suppress option=%v)", i, op.Kind, op.Src, op.Block, delayInForce, c.Suppress)
			suppressed := delayInForce && c.Suppress
			mu.Lock()
			errsBefore, newsBefore := len(errs), len(news)
			mu.Unlock()
			switch op.Kind {
			case "enable":
				enables++
				cfg, tok, enErr := d.EnableVerification(ctx)
				synctest.Wait()
				if enErr != nil {
					fail("%s: EnableVerification of a config type without Verify returned %v", step, enErr)
					return
				}
				if _, vtok := d.ViewVersion(); cfg != cur || serialOf(tok) != curSerial || tok != vtok {
					fail("%s: EnableVerification returned (%p, serial %d), want the installed config (%p, serial %d)", step, cfg, serialOf(tok), cur, curSerial)
					return
				}
				delayInForce = false
			case "value":
				pt := ws[op.Src].Type.Type()
				v := reflect.New(pt).Elem()
				n := i + 1
				v.FieldByName("N").Set(reflect.ValueOf(&n))
				var rerr error
				if op.Block {
					rerr = ws[op.Src].Args.BlockingReportNewValue(ctx, v)
				} else {
					rerr = ws[op.Src].Args.ReportNewValue(ctx, v)
				}
				synctest.Wait()
				if rerr != nil {
					fail("%s: the report returned %v", step, rerr)
					return
				}
				slotN[op.Src] = n
				want := -1
				for _, s := range slotN {
					if s >= 0 {
						want = s
					}
				}
				nv, ntok := d.ViewVersion()
				if serialOf(ntok) != curSerial+1 || nv == cur || nv.N != want || nv.Text != "default" {
					fail("%s: the update was not installed as expected: serial %d -> %d, view %+v, want N=%d", step, curSerial, serialOf(ntok), *nv, want)
					return
				}
				mu.Lock()
				gotNews := append([][2]*PlainCfg{}, news[newsBefore:]...)
				gotErrs := len(errs) - errsBefore
				mu.Unlock()
				if gotErrs != 0 {
					fail("%s: OnWatchedError was called for a valid update", step)
					return
				}
				if suppressed {
					withheld++
					if len(gotNews) != 0 {
						fail("%s: OnNewConfig was called while the delay is in force and the suppress option is set", step)
						return
					}
				} else {
					if !c.Delay || !delayInForce {
						if c.Delay {
							deliveredAfterEnable++
						}
					}
					if len(gotNews) != 1 || gotNews[0][0] != cur || gotNews[0][1] != nv {
						fail("%s: OnNewConfig must be called exactly once with (previous, installed); got %d call(s)", step, len(gotNews))
						return
					}
				}
				cur, curSerial = nv, serialOf(ntok)
			case "error":
				rerr := ws[op.Src].Args.ReportError(ctx, errPlainSource)
				synctest.Wait()
				if rerr != nil {
					fail("%s: ReportError returned %v", step, rerr)
					return
				}
				if nv, ntok := d.ViewVersion(); nv != cur || serialOf(ntok) != curSerial {
					fail("%s: a source error changed the view or the serial", step)
					return
				}
				mu.Lock()
				gotErrs := append([]errRec{}, errs[errsBefore:]...)
				gotNews := len(news) - newsBefore
				mu.Unlock()
				if gotNews != 0 {
					fail("%s: OnNewConfig was called for a source error", step)
					return
				}
				if suppressed {
					withheld++
					if len(gotErrs) != 0 {
						fail("%s: OnWatchedError was called while the delay is in force and the suppress option is set", step)
						return
					}
				} else {
					if c.Delay && !delayInForce {
						deliveredAfterEnable++
					}
					if len(gotErrs) != 1 || !errors.Is(gotErrs[0].err, errPlainSource) || gotErrs[0].old != cur || gotErrs[0].new != nil {
						fail("%s: OnWatchedError must be called exactly once with (the source's error, current config, nil); got %d call(s) %+v", step, len(gotErrs), gotErrs)
						return
					}
				}
			default:
				fail("bad op kind")
				return
			}
		}
	})
	if msg != "" {
		return vrt.KeyedViolationf("plain", "%s", msg)
	}
	return vrt.OK(c.Delay && enables >= 1 && deliveredAfterEnable+withheld >= 1,
		fmt.Sprintf("delay=%v,suppress=%v", c.Delay, c.Suppress), fmt.Sprintf("watchers=%d", c.NWatch),
		fmt.Sprintf("after-enable=%d", min(deliveredAfterEnable, 2)), fmt.Sprintf("withheld=%d", min(withheld, 2)))
}

func TestC09Plain(t *testing.T) {
	curT = t
	vrt.Check(t, vrt.Prop[C09PCase]{
		ID: "C09", Name: "plain",
		Rule: "histories of 1..10 value reports (blocking or not), source errors and EnableVerification calls over 0..2 watchers for a config type WITHOUT a Verify method, under all Delay x Suppress (x Skip) option combinations, inside a synctest bubble; " +
			"oracle (state machine delay-in-force := Delay until the first successful enable): EnableVerification returns (installed config, its serial, nil); OnNewConfig / OnWatchedError are withheld exactly while delay-in-force && suppress option and delivered exactly once, with the right arguments, in every other state; " +
			"non-trivial = Delay set, at least one enable, and at least one global-callback decision (delivered after enable, or withheld); distinct = distinct case JSON",
		Assumptions: []string{"a config type without Verify can never fail verification, so every enable succeeds"},
		Gen:         genC09P, Run: runC09P,
	})
}
