// Package psim is the Dials run-time simulator: scenarios of reports,
// registrations, enables and shutdowns executed against a real Dials inside a
// testing/synctest bubble, next to a reference model that predicts what must
// be observed.
package psim

import (
	"errors"
	"reflect"
	"sync/atomic"
)

// ErrInvalid is what SimCfg.Verify returns for an invalid config.
var ErrInvalid = errors.New("simcfg: Limit is negative")

// SimSub is a nested struct.
type SimSub struct {
	X int
	Y string
}

// SimCfg is the config type of the simulator.  A, B, C are "owned" leaves
// (source i only ever sets its own), Shared is set by any source so that
// precedence is visible.
type SimCfg struct {
	A, B, C int
	Shared  int
	Name    string
	List    []int
	M       map[string]int
	P       *int
	Sub     SimSub
	PSub    *SimSub
	Limit   int
}

// the run currently executing (cases run one at a time per process)
var curRun atomic.Pointer[run]

// Verify implements dials.VerifiedConfig; it reports to the current run.
func (c *SimCfg) Verify() error {
	var err error
	if c.Limit < 0 {
		err = ErrInvalid
	}
	if r := curRun.Load(); r != nil {
		r.onVerify(c, err)
	}
	return err
}

// SimLayer is what a source reports: nil / absent means "unset".
type SimLayer struct {
	A       *int           `json:"a,omitempty"`
	B       *int           `json:"b,omitempty"`
	C       *int           `json:"c,omitempty"`
	Shared  *int           `json:"shared,omitempty"`
	Name    *string        `json:"name,omitempty"`
	List    []int          `json:"list,omitempty"`
	HasList bool           `json:"has_list,omitempty"`
	M       map[string]int `json:"m,omitempty"`
	HasM    bool           `json:"has_m,omitempty"`
	P       *int           `json:"p,omitempty"`
	SubX    *int           `json:"sub_x,omitempty"`
	SubY    *string        `json:"sub_y,omitempty"`
	PSubX   *int           `json:"psub_x,omitempty"`
	Limit   *int           `json:"limit,omitempty"`
}

// Value builds the layer as a value of the pointerified type pt (fields
// located by name).
func (l SimLayer) Value(pt reflect.Type) reflect.Value {
	v := reflect.New(pt).Elem()
	setPtr := func(name string, p *int) {
		if p != nil {
			x := *p
			v.FieldByName(name).Set(reflect.ValueOf(&x))
		}
	}
	setPtr("A", l.A)
	setPtr("B", l.B)
	setPtr("C", l.C)
	setPtr("Shared", l.Shared)
	setPtr("Limit", l.Limit)
	setPtr("P", l.P) // user pointer: *int stays *int
	if l.Name != nil {
		s := *l.Name
		v.FieldByName("Name").Set(reflect.ValueOf(&s))
	}
	if l.HasList {
		v.FieldByName("List").Set(reflect.ValueOf(append([]int{}, l.List...)))
	}
	if l.HasM {
		m := map[string]int{}
		for k, x := range l.M {
			m[k] = x
		}
		v.FieldByName("M").Set(reflect.ValueOf(m))
	}
	if l.SubX != nil || l.SubY != nil {
		f := v.FieldByName("Sub")
		sp := reflect.New(f.Type().Elem())
		if l.SubX != nil {
			x := *l.SubX
			sp.Elem().FieldByName("X").Set(reflect.ValueOf(&x))
		}
		if l.SubY != nil {
			y := *l.SubY
			sp.Elem().FieldByName("Y").Set(reflect.ValueOf(&y))
		}
		f.Set(sp)
	}
	if l.PSubX != nil {
		f := v.FieldByName("PSub")
		sp := reflect.New(f.Type().Elem())
		x := *l.PSubX
		sp.Elem().FieldByName("X").Set(reflect.ValueOf(&x))
		f.Set(sp)
	}
	return v
}

// SimDefaults is the JSON form of the defaults.
type SimDefaults struct {
	A, B, C, Shared int
	Name            string
	List            []int
	M               map[string]int
	P               *int
	SubX            int
	SubY            string
	PSub            bool
	PSubX           int
	Limit           int
}

// Cfg builds a fresh SimCfg from the description.
func (d SimDefaults) Cfg() *SimCfg {
	c := &SimCfg{A: d.A, B: d.B, C: d.C, Shared: d.Shared, Name: d.Name, Sub: SimSub{X: d.SubX, Y: d.SubY}, Limit: d.Limit}
	if d.List != nil {
		c.List = append([]int{}, d.List...)
	}
	if d.M != nil {
		c.M = map[string]int{}
		for k, v := range d.M {
			c.M[k] = v
		}
	}
	if d.P != nil {
		x := *d.P
		c.P = &x
	}
	if d.PSub {
		c.PSub = &SimSub{X: d.PSubX}
	}
	return c
}

// Stack is the pure reference model of stacking SimLayers over defaults.
func Stack(d SimDefaults, layers []SimLayer) *SimCfg {
	c := d.Cfg()
	for _, l := range layers {
		if l.A != nil {
			c.A = *l.A
		}
		if l.B != nil {
			c.B = *l.B
		}
		if l.C != nil {
			c.C = *l.C
		}
		if l.Shared != nil {
			c.Shared = *l.Shared
		}
		if l.Limit != nil {
			c.Limit = *l.Limit
		}
		if l.Name != nil {
			c.Name = *l.Name
		}
		if l.HasList {
			c.List = append([]int{}, l.List...)
		}
		if l.HasM {
			c.M = map[string]int{}
			for k, v := range l.M {
				c.M[k] = v
			}
		}
		if l.P != nil {
			x := *l.P
			c.P = &x
		}
		if l.SubX != nil {
			c.Sub.X = *l.SubX
		}
		if l.SubY != nil {
			c.Sub.Y = *l.SubY
		}
		if l.PSubX != nil {
			if c.PSub == nil {
				c.PSub = &SimSub{}
			}
			c.PSub.X = *l.PSubX
		}
	}
	return c
}
