package psim

import (
	"context"
	"errors"
	"fmt"
	"sync"
	"testing"
	"testing/synctest"
	"time"

	"github.com/vimeo/dials"
	"pgregory.net/rapid"

	"verifharness/internal/fake"
	"verifharness/internal/vrt"
)

// C08ECase: EnableVerification calls whose callers give up (context ends)
// while the monitor is busy verifying for an earlier enable; afterwards the
// monitor must still serve reports and further calls.
type C08ECase struct {
	Abandoned  int  `json:"abandoned"`   // 1..3 enable calls queued behind the busy monitor and abandoned
	FirstFails bool `json:"first_fails"` // the installed config does not verify: the first enable fails, the delay stays
	After      int  `json:"after"`       // reports after the monitor is released
	// AbandonFirst: the caller of the FIRST (parked) call gives up as well, after a virtual second
	AbandonFirst bool `json:"abandon_first,omitempty"`
}

func genC08E(t *rapid.T) C08ECase {
	return C08ECase{Abandoned: rapid.IntRange(1, 3).Draw(t, "abandoned"), FirstFails: rapid.IntRange(0, 3).Draw(t, "first_fails") == 0, After: rapid.IntRange(1, 3).Draw(t, "after"), AbandonFirst: rapid.Bool().Draw(t, "abandon_first")}
}

func runC08E(c C08ECase) (verdict vrt.Verdict) {
	if c.Abandoned < 1 || c.Abandoned > 3 || c.After < 1 || c.After > 10 {
		return vrt.Discardf("bad case")
	}
	var msg string
	fail := func(format string, a ...any) {
		if msg == "" {
			msg = fmt.Sprintf(format, a...)
		}
	}
	defer uVerifyHook.Store(nil)
	defer func() {
		if p := recover(); p != nil {
			verdict = vrt.KeyedViolationf("panic", "panic / synctest failure (a monitor blocked on answering a caller that went away leaves the bubble deadlocked): %v", p)
		}
	}()
	synctest.Test(curT, func(st *testing.T) {
		ctx, cancel := context.WithCancel(context.Background())
		gate := make(chan struct{})
		var gateOnce sync.Once
		release := func() { gateOnce.Do(func() { close(gate) }) }
		defer func() { uVerifyHook.Store(nil); release(); cancel(); synctest.Wait() }()
		uVerifyMu.Lock()
		uVerifyLog = nil
		uVerifyMu.Unlock()
		w := &fake.Watcher{}
		d, err := dials.Params[UCfg]{DelayInitialVerification: true}.Config(ctx, &UCfg{N: 0, I: ULabel{Text: "default"}}, w)
		if err != nil {
			fail("Config failed: %v", err)
			return
		}
		pt := w.Type.Type()
		first := UOp{N: 1}
		if c.FirstFails {
			v := -1
			first.Limit = &v
		}
		if err := w.Args.BlockingReportNewValue(ctx, uLayer(pt, &first)); err != nil {
			fail("report during the delay failed: %v", err)
			return
		}
		// the first enable parks the monitor inside Verify
		var parkOnce sync.Once
		parked := make(chan struct{})
		hook := func(*UCfg) {
			parkOnce.Do(func() {
				close(parked)
				<-gate
			})
		}
		uVerifyHook.Store(&hook)
		var firstErr error
		firstDone := make(chan struct{})
		firstCtx, firstCancel := ctx, context.CancelFunc(func() {})
		if c.AbandonFirst {
			firstCtx, firstCancel = context.WithTimeout(ctx, time.Second)
		}
		defer firstCancel()
		go func() { _, _, firstErr = d.EnableVerification(firstCtx); close(firstDone) }()
		synctest.Wait()
		select {
		case <-parked:
		default:
			fail("the first EnableVerification never reached Verify")
			return
		}
		// further calls queue up behind the busy monitor and their callers give up after a (virtual) second
		for i := 0; i < c.Abandoned; i++ {
			actx, acancel := context.WithTimeout(ctx, time.Second)
			_, _, aerr := d.EnableVerification(actx)
			acancel()
			if aerr == nil {
				fail("EnableVerification %d returned nil although the monitor was busy for its caller's whole deadline", i+2)
				return
			}
		}
		uVerifyHook.Store(nil)
		synctest.Wait() // every caller whose deadline has passed has returned before any answer exists
		release()
		synctest.Wait()
		select {
		case <-firstDone:
		default:
			fail("the first EnableVerification did not return after its Verify call finished")
			return
		}
		if c.AbandonFirst {
			if firstErr == nil {
				fail("the first EnableVerification returned nil although its caller's context ended while the monitor was still verifying")
				return
			}
		} else if c.FirstFails != (firstErr != nil) || (c.FirstFails && !errors.Is(firstErr, ErrInvalid)) {
			fail("the first EnableVerification returned %v (installed config valid=%v)", firstErr, !c.FirstFails)
			return
		}
		// the monitor has worked off the abandoned requests and serves reports again
		for i := 0; i < c.After; i++ {
			op := UOp{N: 10 + i}
			rctx, rcancel := context.WithTimeout(ctx, time.Hour)
			rerr := w.Args.BlockingReportNewValue(rctx, uLayer(pt, &op))
			rcancel()
			if rerr != nil {
				fail("report %d after %d abandoned EnableVerification call(s) returned %v: the monitor no longer serves reports", i, c.Abandoned, rerr)
				return
			}
			if got := d.View().N; got != 10+i {
				fail("report %d after the abandoned calls: view N=%d, want %d", i, got, 10+i)
				return
			}
		}
		lctx, lcancel := context.WithTimeout(ctx, time.Hour)
		lcfg, ltok, lerr := d.EnableVerification(lctx)
		lcancel()
		if lerr != nil {
			fail("a later EnableVerification (the installed config is valid; %d earlier call(s) were abandoned, first abandoned=%v, first verdict failing=%v) returned %v: it must get its OWN answer", c.Abandoned, c.AbandonFirst, c.FirstFails, lerr)
			return
		}
		if cur, ctok := d.ViewVersion(); lcfg != cur || ltok != ctok {
			fail("a later EnableVerification returned (N=%d, serial %d), want the installed config (N=%d, serial %d): answers of abandoned calls must not be handed to later callers", lcfg.N, serialOf(ltok), cur.N, serialOf(ctok))
		}
	})
	if msg != "" {
		return vrt.KeyedViolationf("enable-abandoned", "%s", msg)
	}
	return vrt.OK(true, fmt.Sprintf("abandoned=%d", c.Abandoned), fmt.Sprintf("first_fails=%v", c.FirstFails), fmt.Sprintf("abandon_first=%v", c.AbandonFirst))
}

func TestC08EnableAbandoned(t *testing.T) {
	curT = t
	vrt.Check(t, vrt.Prop[C08ECase]{
		ID: "C08", Name: "enable-abandoned",
		Rule: "delayed verification; a first EnableVerification parks the monitor inside Verify (its own caller may give up too), 1..3 further EnableVerification calls queue up behind it and their callers give up after a virtual second, the monitor is released, then 1..3 blocking reports and one more enable; inside a synctest bubble; " +
			"oracle: the abandoned calls return a failure at their deadline, the first call returns its verdict, and afterwards the monitor still serves every report and call, each later call getting its own answer (installed config and ViewVersion's token) (a monitor blocked on answering a caller that went away deadlocks the bubble); " +
			"non-trivial = every case; distinct = distinct case JSON (12 of them)",
		Assumptions: []string{"the control channel holds at most 3 queued requests (dials.go), hence at most 3 abandoned calls"},
		Gen:         genC08E, Run: runC08E,
	})
}

func TestC05EnableAbandoned(t *testing.T) {
	curT = t
	vrt.Check(t, vrt.Prop[C08ECase]{
		ID: "C05", Name: "enable-abandoned",
		Rule: "the histories of C08/enable-abandoned (EnableVerification callers that give up while the monitor is busy, then reports); " +
			"oracle (C05's clause): after each later report the view holds that source's most recently reported value; " +
			"non-trivial = every case; distinct = distinct case JSON",
		Assumptions: []string{"see C08/enable-abandoned"},
		Gen:         genC08E, Run: runC08E,
	})
}

func TestC09EnableAbandoned(t *testing.T) {
	curT = t
	vrt.Check(t, vrt.Prop[C08ECase]{
		ID: "C09", Name: "enable-abandoned",
		Rule: "the histories of C08/enable-abandoned (EnableVerification callers - also the one whose Verify call is in progress - give up while the monitor is busy; then reports and a retry); " +
			"oracle (C09's clauses): a failed or abandoned enable leaves the delay in force and can be retried; the retry verifies the installed config and returns that config and its serial, never the verdict of an earlier, abandoned call; " +
			"non-trivial = every case; distinct = distinct case JSON",
		Assumptions: []string{"see C08/enable-abandoned"},
		Gen:         genC08E, Run: runC08E,
	})
}
