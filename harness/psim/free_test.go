package psim

import (
	"fmt"
	"sort"
	"strings"
	"testing"

	"pgregory.net/rapid"

	"verifharness/internal/vrt"
)

var genFreeForceDelay bool

func genFree(t *rapid.T, withInvalid bool, shutdownPct int) FreeScenario {
	sc := FreeScenario{}
	sc.Skip = rapid.IntRange(0, 4).Draw(t, "skip") == 0
	sc.Delay = rapid.IntRange(0, 3).Draw(t, "delay") == 0
	if genFreeForceDelay {
		sc.Delay = true
	}
	sc.Suppress = rapid.Bool().Draw(t, "suppress")
	sc.NWatch = rapid.IntRange(1, 3).Draw(t, "n_watch")
	sc.Defaults = SimDefaults{A: -1, B: -2, C: -3, Name: "default", SubX: 7}
	g := &genState{}
	p := genProfile{invalidPct: 0}
	if withInvalid {
		p.invalidPct = 20
	}
	ip0 := p
	ip0.invalidPct = 0
	for i := 0; i < sc.NWatch; i++ {
		sc.Init = append(sc.Init, *g.genLayer(t, i, ip0))
	}
	delay := func() int {
		// small virtual delays: equal times run truly concurrently, distinct times order the ops
		return rapid.SampledFrom([]int{0, 0, 0, 1, 1, 2, 3, 5}).Draw(t, "delay_ns")
	}
	total := 0
	for i := 0; i < sc.NWatch; i++ {
		a := Actor{Src: i}
		n := rapid.IntRange(1, 8).Draw(t, "reporter_ops")
		for j := 0; j < n; j++ {
			switch rapid.IntRange(0, 9).Draw(t, "rop") {
			case 0:
				a.Ops = append(a.Ops, FreeOp{K: "reporterr", DelayNS: delay()})
			default:
				a.Ops = append(a.Ops, FreeOp{K: "report", L: g.genLayer(t, i, p), Block: rapid.Bool().Draw(t, "block"), DelayNS: delay()})
			}
			total++
		}
		sc.Actors = append(sc.Actors, a)
	}
	shutdown := rapid.IntRange(0, 99).Draw(t, "shutdown") < shutdownPct
	byDone := shutdown && rapid.Bool().Draw(t, "by_done")
	if byDone {
		for i := range sc.Actors {
			sc.Actors[i].Ops = append(sc.Actors[i].Ops, FreeOp{K: "done", DelayNS: delay()})
		}
	} else if shutdown {
		sc.CancelAtNS = rapid.IntRange(1, 20).Draw(t, "cancel_at")
	}
	nc := rapid.IntRange(0, 3).Draw(t, "clients")
	foreverUsed := false
	for c := 0; c < nc; c++ {
		a := Actor{Src: -1}
		n := rapid.IntRange(1, 8).Draw(t, "client_ops")
		regs := 0
		for j := 0; j < n && total < 40; j++ {
			switch k := rapid.IntRange(0, 9).Draw(t, "cop"); {
			case k < 3:
				a.Ops = append(a.Ops, FreeOp{K: "view", DelayNS: delay()})
			case k < 4:
				a.Ops = append(a.Ops, FreeOp{K: "events", DelayNS: delay()})
			case k < 7:
				op := FreeOp{K: "register", DelayNS: delay(), Zero: rapid.IntRange(0, 3).Draw(t, "zero") == 0}
				if !foreverUsed && rapid.IntRange(0, 3).Draw(t, "forever") == 0 {
					op.Forever = true
					foreverUsed = true
					// often follow a blocked-forever callback with enough installs to fill the callback queue
					if rapid.Bool().Draw(t, "burst") {
						ri := rapid.IntRange(0, sc.NWatch-1).Draw(t, "burst_src")
						sc.Actors[ri].Ops = append(sc.Actors[ri].Ops, FreeOp{K: "report", L: g.genLayer(t, ri, ip0), Block: true, DelayNS: 6, Burst: rapid.IntRange(66, 90).Draw(t, "burst_n")})
					}
				}
				a.Ops = append(a.Ops, op)
				regs++
			case k < 9:
				if regs > 0 {
					a.Ops = append(a.Ops, FreeOp{K: "unregister", H: rapid.IntRange(0, regs-1).Draw(t, "h"), DelayNS: delay()})
				}
			default:
				a.Ops = append(a.Ops, FreeOp{K: "enable", DelayNS: delay()})
			}
			if genFreeForceDelay && rapid.IntRange(0, 2).Draw(t, "extra_enable") == 0 {
				a.Ops = append(a.Ops, FreeOp{K: "enable", DelayNS: delay()})
			}
			total++
		}
		sc.Actors = append(sc.Actors, a)
	}
	if shutdown {
		for i, n := 0, rapid.IntRange(1, 5).Draw(t, "n_late"); i < n; i++ {
			sc.Late = append(sc.Late, rapid.SampledFrom([]string{"register", "enable", "report", "reportblock", "reporterr", "done"}).Draw(t, "late"))
		}
	}
	return sc
}

func runFreeTagged(sc FreeScenario, nt func(*Result, *FreeScenario) bool, tags ...string) vrt.Verdict {
	res := RunFree(curT, &sc)
	if res.Malformed != "" {
		return vrt.Discardf("%s", res.Malformed)
	}
	var labels []string
	for l := range res.Labels {
		labels = append(labels, l)
	}
	sort.Strings(labels)
	labels = append(labels, fmt.Sprintf("actors=%d", len(sc.Actors)))
	if res.Viol != nil {
		for _, tg := range tags {
			if strings.Contains(res.Viol.Tag, tg) {
				return vrt.KeyedViolationf(res.Viol.Tag, "%s", res.Viol.Msg)
			}
		}
		return vrt.OK(false, append(labels, "stopped-by-other-property:"+res.Viol.Tag)...)
	}
	return vrt.OK(nt(res, &sc), labels...)
}

func hasForever(sc *FreeScenario) bool {
	for _, a := range sc.Actors {
		for _, op := range a.Ops {
			if op.Forever {
				return true
			}
		}
	}
	return false
}

func TestC08Free(t *testing.T) {
	curT = t
	vrt.Check(t, vrt.Prop[FreeScenario]{
		ID: "C08", Name: "free",
		Rule: "free-running cases: one reporter goroutine per watching source (value reports, blocking reports, error reports, Done) plus 0..3 client goroutines (ViewVersion, Events, RegisterCallback incl. one callback that blocks until the end of the case, unregister, EnableVerification), every op under a 1h virtual-time context and preceded by a virtual delay of 0..5ns drawn by rapid (equal times run concurrently, distinct times order the ops), optional cancellation of the Config context at a drawn virtual time, then late calls; " +
			"oracle: synctest reports no deadlock and no leaked goroutine, no panic, no op outlives its context, reports issued while the monitor is serving do not time out even with a callback blocked forever, the monitor exits iff cancelled or all watchers are Done, late calls fail by their deadline; " +
			"non-trivial = a shutdown happened or a callback blocked forever while reports continued; distinct = distinct scenario JSON",
		Assumptions: []string{"the interleaving inside one virtual instant is chosen by the Go scheduler; failures carry the recorded history"},
		Gen:         func(t *rapid.T) FreeScenario { return genFree(t, true, 60) },
		Run: func(sc FreeScenario) vrt.Verdict {
			return runFreeTagged(sc, func(r *Result, sc *FreeScenario) bool {
				return sc.CancelAtNS > 0 || len(sc.Late) > 0 || hasForever(sc)
			}, "C08")
		},
	})
}

func TestC05Free(t *testing.T) {
	curT = t
	vrt.Check(t, vrt.Prop[FreeScenario]{
		ID: "C05", Name: "free",
		Rule: "free-running cases (see C08/free) without shutdown: concurrent reporters (one per source) and concurrent readers; oracle: every stored version has serial = predecessor + 1 (schedule point at the store), no reader sees its serial decrease, a config and serial read together were stored together, Events only delivers stored versions, and when no value of the case can invalidate a stack the final view deep-equals the reference stack of each source's latest value whatever the interleaving; " +
			"non-trivial = >=2 reporters and >=3 installs; distinct = distinct scenario JSON",
		Gen: func(t *rapid.T) FreeScenario { return genFree(t, rapid.Bool().Draw(t, "with_invalid"), 0) },
		Run: func(sc FreeScenario) vrt.Verdict {
			return runFreeTagged(sc, func(r *Result, sc *FreeScenario) bool { return sc.NWatch >= 2 && r.Installs >= 3 }, "C05")
		},
	})
}

func TestC04Free(t *testing.T) {
	curT = t
	vrt.Check(t, vrt.Prop[FreeScenario]{
		ID: "C04", Name: "free",
		Rule: "free-running cases (see C08/free) whose reports alternate between valid and invalid stacks under all option combinations, with concurrent readers, an Events consumer and registered callbacks; oracle (provenance): every config pointer observed through ViewVersion, Events, OnNewConfig, a registered callback, the old argument of OnWatchedError or EnableVerification, and every pointer stored (sampled at the store by a schedule point), is the initial one or one for which Verify returned nil earlier, whenever verification is active; " +
			"non-trivial = at least one rejected blocking report and one install; distinct = distinct scenario JSON",
		Assumptions: []string{"under DelayInitialVerification unverified versions are legitimately visible, so the provenance rule is not applied to those cases (C09 covers the switch-on)"},
		Gen:         func(t *rapid.T) FreeScenario { return genFree(t, true, 0) },
		Run: func(sc FreeScenario) vrt.Verdict {
			return runFreeTagged(sc, func(r *Result, sc *FreeScenario) bool { return r.Rejects >= 1 && r.Installs >= 1 }, "C04")
		},
	})
}

func TestC06Free(t *testing.T) {
	curT = t
	vrt.Check(t, vrt.Prop[FreeScenario]{
		ID: "C06", Name: "free",
		Rule: "free-running cases (see C08/free) with registrations and unregistrations racing with installs; oracle (history invariants): callbacks never overlap, versions are delivered in installation order, per handle the new version is strictly newer than the registered serial and than anything it already received, old is older than new, and no callback runs after its unregister function returned true; " +
			"non-trivial = >=2 registered callbacks were invoked; distinct = distinct scenario JSON",
		Gen: func(t *rapid.T) FreeScenario { return genFree(t, false, 20) },
		Run: func(sc FreeScenario) vrt.Verdict {
			return runFreeTagged(sc, func(r *Result, sc *FreeScenario) bool { return r.Calls >= 3 }, "C06")
		},
	})
}

func TestC09Free(t *testing.T) {
	curT = t
	vrt.Check(t, vrt.Prop[FreeScenario]{
		ID: "C09", Name: "free",
		Rule: "free-running cases (see C08/free) with DelayInitialVerification always set: reporters deliver valid and invalid values while client goroutines call EnableVerification (repeatedly, failing and succeeding) at drawn virtual instants; " +
			"oracle (history invariants): Verify is never invoked before the first EnableVerification call was issued; a successful EnableVerification returns a config that passes Verify together with the serial it was stored with; no version that fails Verify is installed with a serial greater than the one a successful EnableVerification returned (atomic switch-on); failures return the verifier's error; " +
			"non-trivial = an EnableVerification succeeded while reports were in flight; distinct = distinct scenario JSON",
		Gen: func(t *rapid.T) FreeScenario {
			genFreeForceDelay = true
			defer func() { genFreeForceDelay = false }()
			return genFree(t, true, 0)
		},
		Run: func(sc FreeScenario) vrt.Verdict {
			return runFreeTagged(sc, func(r *Result, sc *FreeScenario) bool { return r.Labels["enable-succeeded"] && r.Installs >= 1 }, "C09")
		},
	})
}
