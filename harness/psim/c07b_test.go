package psim

import (
	"context"
	"errors"
	"fmt"
	"reflect"
	"testing"
	"testing/synctest"
	"time"

	"github.com/vimeo/dials"
	"github.com/vimeo/dials/sourcewrap"
	"github.com/vimeo/dials/transform"
	"pgregory.net/rapid"

	"verifharness/internal/fake"
	"verifharness/internal/vrt"
)

// C07BlankOp is one Blank.SetSource call.
type C07BlankOp struct {
	L       SimLayer `json:"l"`
	Ctx     string   `json:"ctx"`  // live | deadline
	Hold    string   `json:"hold"` // "" | verify | reply : park the monitor there until the caller's deadline has passed
	Watcher bool     `json:"watcher,omitempty"`
	// SameSrc: the call passes the SAME source object as the previous call,
	// whose data has changed meanwhile (a caller refreshing a static source)
	SameSrc bool `json:"same_src,omitempty"`
	// BusySec: with a LIVE context and a hold point, the monitor stays parked
	// for that many (virtual) seconds before it goes on; the caller waits
	BusySec int `json:"busy_sec,omitempty"`
}

// simMutSource is a static source whose data can be swapped between two
// SetSource calls with the same object.
type simMutSource struct{ l SimLayer }

func (m *simMutSource) Value(_ context.Context, t *dials.Type) (reflect.Value, error) {
	return m.l.Value(t.Type()), nil
}

type C07BlankCase struct {
	Skip      bool         `json:"skip,omitempty"`
	Other     bool         `json:"other"`      // another watching source next to the Blank
	ExitFirst bool         `json:"exit_first"` // the monitor exits (context cancelled) before the ops
	Wrap      int          `json:"wrap"`       // 0: bare Blank; 1: Blank inside a transforming source without manglers; 2: with a (type-preserving here) set->slice mangler
	Ops       []C07BlankOp `json:"ops"`
	DoneAfter bool         `json:"done_after,omitempty"` // finish with Blank.Done under a 1h deadline
	// CancelCfgAtLast: while the monitor is parked handling the LAST call, the
	// Config context is cancelled; the caller (whose own context lives on) must
	// still get the answer for the report the monitor had already accepted
	CancelCfgAtLast bool `json:"cancel_cfg_at_last,omitempty"`
	BadWatcherAt    int  `json:"bad_watcher_at,omitempty"` // 1-based: before that op the Blank is given a WATCHING source whose Value fails; the failed call must leave nothing behind
	Reuse           bool `json:"reuse,omitempty"`          // the same Blank is (wrongly) handed to a second Config, which must refuse it without disturbing the first Dials
	DoneFirst       bool `json:"done_first,omitempty"`     // Blank.Done is called before the SetSource calls (the monitor lives on iff there is another watcher)
}

func genC07Blank(t *rapid.T) C07BlankCase {
	c := C07BlankCase{Skip: rapid.Bool().Draw(t, "skip"), Other: rapid.Bool().Draw(t, "other"), ExitFirst: rapid.IntRange(0, 4).Draw(t, "exit_first") == 0}
	c.Wrap = rapid.IntRange(0, 2).Draw(t, "wrap")
	c.DoneFirst = !c.ExitFirst && rapid.IntRange(0, 4).Draw(t, "done_first") == 0
	c.Reuse = rapid.IntRange(0, 4).Draw(t, "reuse") == 0
	if rapid.IntRange(0, 3).Draw(t, "bad_watcher") == 0 {
		c.BadWatcherAt = rapid.IntRange(1, 5).Draw(t, "bad_watcher_at")
	}
	gone := c.ExitFirst || (c.DoneFirst && !c.Other)
	g := &genState{}
	n := rapid.IntRange(1, 5).Draw(t, "ops")
	for i := 0; i < n; i++ {
		op := C07BlankOp{L: *g.genLayer(t, 0, genProfile{invalidPct: 25}), Ctx: rapid.SampledFrom([]string{"live", "deadline", "deadline"}).Draw(t, "ctx")}
		if op.Ctx == "deadline" && !gone {
			op.Hold = rapid.SampledFrom([]string{"", "verify", "reply"}).Draw(t, "hold")
		}
		if gone {
			op.Ctx = "deadline"
		}
		if op.Ctx == "live" && !gone && rapid.IntRange(0, 1).Draw(t, "busy") == 0 {
			op.Hold = rapid.SampledFrom([]string{"verify", "reply"}).Draw(t, "busy_hold")
			op.BusySec = rapid.SampledFrom([]int{1, 5, 90, 4000}).Draw(t, "busy_sec")
		}
		op.SameSrc = i > 0 && rapid.IntRange(0, 2).Draw(t, "same_src") == 0
		c.Ops = append(c.Ops, op)
	}
	// the last call may hand the Blank a WATCHING inner source (afterwards the
	// Blank refuses replacements, so only the last one)
	c.Ops[len(c.Ops)-1].Watcher = rapid.Bool().Draw(t, "last_is_watcher")
	if !gone && rapid.IntRange(0, 3).Draw(t, "cancel_cfg_at_last") == 0 {
		c.CancelCfgAtLast = true
		last := &c.Ops[len(c.Ops)-1]
		last.Ctx = "live"
		last.Hold = rapid.SampledFrom([]string{"verify", "reply"}).Draw(t, "cancel_hold")
	}
	c.DoneAfter = rapid.Bool().Draw(t, "done_after")
	return c
}

func runC07Blank(c C07BlankCase) (verdict vrt.Verdict) {
	var msg string
	fail := func(format string, a ...any) {
		if msg == "" {
			msg = fmt.Sprintf(format, a...)
		}
	}
	defer func() {
		if p := recover(); p != nil {
			verdict = vrt.KeyedViolationf("panic", "panic / synctest failure (a SetSource that outlives its context leaves the bubble deadlocked): %v", p)
		}
	}()
	heldCount, rejected, sameSrcCalls, busyWaits := 0, 0, 0, 0
	synctest.Test(curT, func(st *testing.T) {
		cfgCtx, cfgCancel := context.WithCancel(context.Background())
		r := &run{}
		curRun.Store(r)
		defer curRun.Store(nil)
		hook := func(p string) {
			if p == "mon.reply" {
				r.maybeHold("reply")
			}
		}
		dials.VerifSched.Store(&hook)
		defer dials.VerifSched.Store(nil)
		defer func() {
			r.mu.Lock()
			ch := r.holdCh
			r.holdCh = nil
			r.mu.Unlock()
			_ = ch
			cfgCancel()
			synctest.Wait()
		}()
		blank := &sourcewrap.Blank{}
		var bsrc dials.Source = blank
		switch c.Wrap {
		case 1:
			bsrc = sourcewrap.NewTransformingSource(blank)
		case 2:
			bsrc = sourcewrap.NewTransformingSource(blank, &transform.SetSliceMangler{})
		}
		srcs := []dials.Source{bsrc}
		other := &fake.Watcher{}
		if c.Other {
			srcs = []dials.Source{other, bsrc}
		}
		defaults := SimDefaults{A: -1, B: -2, C: -3, Name: "default"}
		d, err := dials.Params[SimCfg]{SkipInitialVerification: c.Skip}.Config(cfgCtx, defaults.Cfg(), srcs...)
		if err != nil {
			fail("Config failed: %v", err)
			return
		}
		r.d = d
		if c.Reuse {
			ctx2, cancel2 := context.WithCancel(context.Background())
			_, err2 := dials.Params[SimCfg]{SkipInitialVerification: true}.Config(ctx2, defaults.Cfg(), bsrc)
			cancel2()
			synctest.Wait()
			if err2 == nil {
				fail("a second Config accepted a Blank that is already in use")
				return
			}
		}
		if c.ExitFirst {
			cfgCancel()
			synctest.Wait()
		}
		gone := c.ExitFirst
		if c.DoneFirst && !c.ExitFirst {
			// the Blank gives up its watch slot; later calls on it must still
			// fail or succeed cleanly
			blank.Done(cfgCtx)
			synctest.Wait()
			gone = !c.Other
		}
		var cur SimLayer
		var prevSrc *simMutSource
		var lastInner *fake.Watcher
		cfgCancelled := false
		for i := range c.Ops {
			op := &c.Ops[i]
			if c.BadWatcherAt == i+1 {
				bctx, bcancel := context.WithTimeout(context.Background(), time.Hour)
				berr := blank.SetSource(bctx, &fake.Watcher{Err: errSource})
				bcancel()
				synctest.Wait()
				if berr == nil || !errors.Is(berr, errSource) {
					fail("before op %d: SetSource with a watching source whose Value fails returned %v, want that error", i, berr)
					return
				}
			}
			step := fmt.Sprintf("op %d (ctx=%s hold=%q watching inner=%v)", i, op.Ctx, op.Hold, op.Watcher && i == len(c.Ops)-1)
			l := op.L
			var src dials.Source
			var innerW *fake.Watcher
			switch {
			case op.Watcher && i == len(c.Ops)-1:
				innerW = &fake.Watcher{Mk: func(t *dials.Type) reflect.Value { return l.Value(t.Type()) }}
				src = innerW
			case op.SameSrc && prevSrc != nil:
				prevSrc.l = l // same object, new data: the Blank has to ask it again
				src = prevSrc
				sameSrcCalls++
			default:
				prevSrc = &simMutSource{l: l}
				src = prevSrc
			}
			st := Stack(defaults, []SimLayer{{}, l})
			valid := st.Limit >= 0
			ctx, cancel := context.WithCancel(context.Background())
			if op.Ctx == "deadline" {
				cancel()
				ctx, cancel = context.WithTimeout(context.Background(), time.Hour)
			}
			defer cancel()
			hold := op.Hold
			if hold == "verify" && false {
				hold = ""
			}
			var holdCh chan struct{}
			if hold != "" {
				holdCh = make(chan struct{})
				r.mu.Lock()
				r.holdPoint, r.holdCh = hold, holdCh
				r.mu.Unlock()
			}
			t0 := time.Now()
			var serr error
			done := make(chan struct{})
			go func() {
				serr = blank.SetSource(ctx, src)
				close(done)
			}()
			synctest.Wait()
			held := false
			if hold != "" {
				r.mu.Lock()
				held = r.heldNow
				r.mu.Unlock()
			}
			if held && c.CancelCfgAtLast && i == len(c.Ops)-1 && op.Ctx == "live" {
				heldCount++
				cfgCancelled = true
				// the Dials context ends while the monitor is in the middle of this report;
				// the caller's own context lives on, so the only way out is the monitor's answer
				cfgCancel()
				synctest.Wait()
				close(holdCh)
				synctest.Wait()
				select {
				case <-done:
				default:
					fail("%s: the Config context was cancelled while the monitor was handling this report; the caller (own context still live) was never answered", step)
					cancel()
					return
				}
				if valid && serr != nil {
					fail("%s: the monitor had accepted the report before the Config context ended, verification passes, but SetSource returned %v", step, serr)
					return
				}
				if !valid && !errors.Is(serr, ErrInvalid) {
					fail("%s: the monitor had accepted the report before the Config context ended and the stack does not verify, but SetSource returned %v, want the verifier's error", step, serr)
					return
				}
				if valid {
					cur = l
				}
				gone = true
			} else if held && op.Ctx == "live" {
				heldCount++
				busyWaits++
				// the monitor is busy for a while; the caller's context never ends, so
				// SetSource may only return with the monitor's answer
				time.Sleep(time.Duration(op.BusySec) * time.Second)
				synctest.Wait()
				select {
				case <-done:
					fail("%s: the caller's context never ends and the monitor is still busy (%ds so far), yet SetSource returned %v: a blocking report returns only with the monitor's answer or when ITS context ends", step, op.BusySec, serr)
					close(holdCh)
					return
				default:
				}
				close(holdCh)
				synctest.Wait()
				select {
				case <-done:
				default:
					fail("%s: the monitor went on after %ds but SetSource (live context) did not return", step, op.BusySec)
					cancel()
					return
				}
				if valid && serr != nil {
					fail("%s: SetSource of a valid value, waited for by a caller with a live context while the monitor was busy for %ds, returned %v", step, op.BusySec, serr)
					return
				}
				if !valid && !errors.Is(serr, ErrInvalid) {
					fail("%s: SetSource of a value that does not verify returned %v, want the verifier's error", step, serr)
					return
				}
				if valid {
					cur = l
				}
			} else if held {
				heldCount++
				// the monitor is parked; the only thing that can happen is the caller's deadline
				select {
				case <-done:
				case <-time.After(2 * time.Hour):
					fail("%s: SetSource did not return although its context ended an hour ago (monitor busy): a blocking report must return a context error when its context ends first", step)
					close(holdCh)
					return
				}
				if el := time.Since(t0); el > time.Hour {
					fail("%s: SetSource returned %v after its 1h deadline", step, el)
					close(holdCh)
					return
				}
				if serr == nil || !errors.Is(serr, context.DeadlineExceeded) {
					fail("%s: SetSource whose context ended while the monitor was busy returned %v, want a context error", step, serr)
					close(holdCh)
					return
				}
				close(holdCh)
				synctest.Wait()
				// the monitor finished the re-stack on its own
				if valid || c.Skip && false {
					cur = l
				}
			} else {
				if hold != "" {
					// hold point not on this path (e.g. invalid value never reaches the reply before... ) : disarm
					r.mu.Lock()
					r.holdCh, r.holdPoint = nil, ""
					r.mu.Unlock()
				}
				select {
				case <-done:
				case <-time.After(2 * time.Hour):
					fail("%s: SetSource did not return within two hours although its context had a 1h deadline (monitor exited=%v)", step, gone)
					return
				}
				if gone {
					if serr == nil {
						fail("%s: SetSource after the monitor exited returned nil", step)
						return
					}
					if el := time.Since(t0); el > time.Hour {
						fail("%s: SetSource after the monitor exited returned after %v, past its deadline", step, el)
						return
					}
					continue
				}
				if valid {
					if serr != nil {
						fail("%s: SetSource of a valid value failed: %v", step, serr)
						return
					}
					cur = l
				} else {
					rejected++
					if serr == nil || !errors.Is(serr, ErrInvalid) {
						fail("%s: SetSource of a value whose stack does not verify returned %v, want the verifier's error", step, serr)
						return
					}
				}
			}
			if innerW != nil && serr == nil && innerW.Ctx != nil {
				// the inner watcher lives exactly as long as the Dials: not shorter
				// (the SetSource call's context ends now), not longer (checked at the end)
				cancel()
				synctest.Wait()
				if innerW.Ctx.Err() != nil && !gone && !cfgCancelled {
					fail("%s: the inner watcher's context ended with the SetSource call although the Dials is still running: later updates from it would be lost", step)
					return
				}
				lastInner = innerW
			}
			cancel()
			want := Stack(defaults, []SimLayer{{}, cur})
			got := d.View()
			if got.A != want.A || got.Limit != want.Limit || got.Name != want.Name || got.Shared != want.Shared {
				fail("%s: after SetSource returned %v the view is A=%d Limit=%d, want A=%d Limit=%d", step, serr, got.A, got.Limit, want.A, want.Limit)
				return
			}
		}
		if c.DoneAfter {
			// whatever the SetSource calls returned, the Blank must still answer
			ctx, cancel := context.WithTimeout(context.Background(), time.Hour)
			defer cancel()
			t0 := time.Now()
			done := make(chan struct{})
			go func() {
				blank.Done(ctx)
				close(done)
			}()
			select {
			case <-done:
				if el := time.Since(t0); el > time.Hour {
					fail("Blank.Done after the SetSource calls returned after %v, past its 1h deadline", el)
				}
			case <-time.After(2 * time.Hour):
				fail("Blank.Done after the SetSource calls did not return within two hours although its context had a 1h deadline")
			}
		}
		if lastInner != nil && msg == "" {
			cfgCancel()
			synctest.Wait()
			if lastInner.Ctx.Err() == nil {
				fail("after the Config context was cancelled the inner watcher the Blank started is still running (its context is still live)")
			}
		}
	})
	if msg != "" {
		return vrt.KeyedViolationf("blank", "%s", msg)
	}
	return vrt.OK(heldCount > 0 || c.ExitFirst || c.DoneFirst || rejected > 0, fmt.Sprintf("held=%d", min(heldCount, 3)), fmt.Sprintf("exit_first=%v", c.ExitFirst), fmt.Sprintf("done_first=%v", c.DoneFirst), fmt.Sprintf("reuse=%v", c.Reuse), fmt.Sprintf("same-source-again=%v", sameSrcCalls > 0), fmt.Sprintf("bad_watcher=%v", c.BadWatcherAt > 0 && c.BadWatcherAt <= len(c.Ops)), fmt.Sprintf("wrap=%d", c.Wrap), fmt.Sprintf("busy-waits=%d", min(busyWaits, 2)))
}

func TestC08Blank(t *testing.T) {
	curT = t
	vrt.Check(t, vrt.Prop[C07BlankCase]{
		ID: "C08", Name: "blank",
		Rule: "the histories of C07/blank (1..5 Blank.SetSource calls with live or 1h-deadline contexts against a free, parked or exited monitor, values that verify or not), optionally after a second Config was (wrongly) handed the same Blank and refused it, optionally with a failed SetSource of a watching source whose Value errors in between (it must leave nothing behind), optionally with the Config context cancelled while the monitor is parked on the last call (whose caller's context lives on and must still be answered), optionally preceded by Blank.Done (the Blank gave up its watch slot; the monitor lives on iff another watcher exists) and optionally finished by Blank.Done under a 1h deadline; " +
			"oracle (C08's clauses): every call returns no later than its own context ends (virtual time), also the calls issued after an earlier call failed, timed out or the monitor exited (a leaked Blank mutex or a missing answer leaves the bubble deadlocked), nothing panics; " +
			"non-trivial = a call that met a parked or exited monitor, or a rejected value; distinct = distinct case JSON",
		Assumptions: []string{"SetSource is called after Config, as documented"},
		Gen:         genC07Blank, Run: runC07Blank,
	})
}

func TestC07Blank(t *testing.T) {
	curT = t
	vrt.Check(t, vrt.Prop[C07BlankCase]{
		ID: "C07", Name: "blank",
		Rule: "1..5 Blank.SetSource calls (inner sources static, sometimes the SAME object as in the previous call with new data; the last one static or watching, and a watching one must live exactly as long as the Dials) on a Blank inside a real Dials (bare, or wrapped in a transforming source; optionally next to another watcher), with a live context or a 1h virtual-time deadline, while the monitor is free, parked inside Verify or right before it answers (until the caller's deadline has passed), or already gone; " +
			"oracle: nil => the view holds the value; a value whose stack does not verify => the verifier's error and an unchanged view; the caller's context ending first => SetSource returns a context error no later than its own deadline (virtual time); a caller whose context never ends waits as long as the monitor is busy (1 s .. 4000 s of virtual time) and gets the monitor's answer, never a context error; the monitor then finishes on its own and the Blank stays usable (its mutex is released); " +
			"non-trivial = a call that met a parked or exited monitor, or a rejected value; distinct = distinct case JSON",
		Assumptions: []string{"SetSource is called after Config, as documented"},
		Gen:         genC07Blank, Run: runC07Blank,
	})
}
