package psim

import (
	"context"
	"fmt"
	"reflect"
	"strings"
	"testing"

	"github.com/vimeo/dials"
	"github.com/vimeo/dials/sourcewrap"
	"github.com/vimeo/dials/tagformat"
	"github.com/vimeo/dials/tagformat/caseconversion"
	"github.com/vimeo/dials/transform"
	"pgregory.net/rapid"

	"verifharness/internal/fake"
	"verifharness/internal/shape"
	"verifharness/internal/vrt"
)

// ---- wrappers that rename keys, over structs held in collections ----

type EItem struct {
	HostName string `dials:"host_name"`
	PortNum  int    `dials:"port_num"`
	// no dials tag: the key comes from the Go field name (Go-identifier rules,
	// whatever convention the tags are written in)
	MaxConns int
}

type EBox struct {
	BoxLabel string  `dials:"box_label"`
	Inner    []EItem `dials:"inner_items"`
}

type ECfg struct {
	TopName  string  `dials:"top_name"`
	Items    []EItem `dials:"item_list"`
	More     []EItem `dials:"more_items"`
	One      *EItem  `dials:"one_item"`
	HTTPPort int     // untagged: key from the Go field name [http port]
	Box      EBox    `dials:"the_box"`
}

type EVal struct {
	Host string `json:"host"`
	Port int    `json:"port"`
	Max  int    `json:"max,omitempty"`
}

// ELayer is what the inner source finds (absent = unset).
type ELayer struct {
	TopName  *string         `json:"top_name,omitempty"`
	HTTPPort *int            `json:"http_port,omitempty"`
	Items    []EVal          `json:"items,omitempty"`
	HasItems bool            `json:"has_items,omitempty"`
	Pair     *[2]EVal        `json:"pair,omitempty"`
	ByName   map[string]EVal `json:"by_name,omitempty"`
	HasBy    bool            `json:"has_by,omitempty"`
	One      *EVal           `json:"one,omitempty"`
	BoxLabel *string         `json:"box_label,omitempty"`
	BoxInner []EVal          `json:"box_inner,omitempty"`
	HasInner bool            `json:"has_inner,omitempty"`
}

func eStack(l ELayer) *ECfg {
	c := &ECfg{TopName: "default", Items: []EItem{{HostName: "d", PortNum: 1}}, Box: EBox{BoxLabel: "dbox"}}
	item := func(v EVal) EItem { return EItem{HostName: v.Host, PortNum: v.Port, MaxConns: v.Max} }
	if l.TopName != nil {
		c.TopName = *l.TopName
	}
	if l.HTTPPort != nil {
		c.HTTPPort = *l.HTTPPort
	}
	if l.HasItems {
		c.Items = []EItem{}
		for _, v := range l.Items {
			c.Items = append(c.Items, item(v))
		}
	}
	if l.Pair != nil {
		a, b := item(l.Pair[0]), item(l.Pair[1])
		c.More = []EItem{a, b}
	}
	if l.One != nil {
		i := item(*l.One)
		c.One = &i
	}
	if l.BoxLabel != nil {
		c.Box.BoxLabel = *l.BoxLabel
	}
	if l.HasInner {
		c.Box.Inner = []EItem{}
		for _, v := range l.BoxInner {
			c.Box.Inner = append(c.Box.Inner, item(v))
		}
	}
	return c
}

// strictFill writes l into v, a value of whatever type the source was handed,
// locating every field - also the fields of structs inside slices, arrays and
// maps - by the EXACT key a file in the target convention would use (enc of
// the words).  A field whose tag is spelled differently is not found and stays
// unset, as with a real decoder.
func strictFill(v reflect.Value, l ELayer, enc func(...string) string) {
	setScalar := func(f reflect.Value, x any) {
		xv := reflect.ValueOf(x)
		if f.Kind() == reflect.Pointer {
			p := reflect.New(f.Type().Elem())
			p.Elem().Set(xv.Convert(f.Type().Elem()))
			f.Set(p)
			return
		}
		f.Set(xv.Convert(f.Type()))
	}
	// untagged fields: a renaming wrapper gives them a dials tag derived from the
	// Go field name; the unwrapped reference type has no tag there, so the
	// reference source goes by the Go name
	goNames := map[string]string{enc("max", "conns"): "MaxConns", enc("http", "port"): "HTTPPort"}
	byTag := func(sv reflect.Value, key string) reflect.Value {
		for i := 0; i < sv.NumField(); i++ {
			sf := sv.Type().Field(i)
			if tag, has := sf.Tag.Lookup("dials"); has && tag == key {
				return sv.Field(i)
			} else if !has && goNames[key] == sf.Name {
				return sv.Field(i)
			}
		}
		return reflect.Value{}
	}
	fillItem := func(iv reflect.Value, val EVal) {
		for iv.Kind() == reflect.Pointer {
			if iv.IsNil() {
				iv.Set(reflect.New(iv.Type().Elem()))
			}
			iv = iv.Elem()
		}
		if f := byTag(iv, enc("host", "name")); f.IsValid() {
			setScalar(f, val.Host)
		}
		if f := byTag(iv, enc("port", "num")); f.IsValid() {
			setScalar(f, val.Port)
		}
		if f := byTag(iv, enc("max", "conns")); f.IsValid() && val.Max != 0 {
			setScalar(f, val.Max)
		}
	}
	fillSlice := func(f reflect.Value, vals []EVal) {
		s := reflect.MakeSlice(f.Type(), len(vals), len(vals))
		for i, x := range vals {
			fillItem(s.Index(i), x)
		}
		f.Set(s)
	}
	if f := byTag(v, enc("top", "name")); f.IsValid() && l.TopName != nil {
		setScalar(f, *l.TopName)
	}
	if f := byTag(v, enc("http", "port")); f.IsValid() && l.HTTPPort != nil {
		setScalar(f, *l.HTTPPort)
	}
	if f := byTag(v, enc("item", "list")); f.IsValid() && l.HasItems {
		fillSlice(f, l.Items)
	}
	if f := byTag(v, enc("more", "items")); f.IsValid() && l.Pair != nil {
		s := reflect.MakeSlice(f.Type(), 2, 2)
		fillItem(s.Index(0), l.Pair[0])
		fillItem(s.Index(1), l.Pair[1])
		f.Set(s)
	}
	if f := byTag(v, enc("one", "item")); f.IsValid() && l.One != nil {
		fillItem(f, *l.One)
	}
	if f := byTag(v, enc("the", "box")); f.IsValid() && (l.BoxLabel != nil || l.HasInner) {
		bv := f
		for bv.Kind() == reflect.Pointer {
			if bv.IsNil() {
				bv.Set(reflect.New(bv.Type().Elem()))
			}
			bv = bv.Elem()
		}
		if lf := byTag(bv, enc("box", "label")); lf.IsValid() && l.BoxLabel != nil {
			setScalar(lf, *l.BoxLabel)
		}
		if inf := byTag(bv, enc("inner", "items")); inf.IsValid() && l.HasInner {
			fillSlice(inf, l.BoxInner)
		}
	}
}

func encSnake(w ...string) string      { return strings.Join(w, "_") }
func encKebab(w ...string) string      { return strings.Join(w, "-") }
func encUpperSnake(w ...string) string { return strings.ToUpper(strings.Join(w, "_")) }
func encLowerCamel(w ...string) string {
	out := w[0]
	for _, x := range w[1:] {
		out += strings.ToUpper(x[:1]) + x[1:]
	}
	return out
}

type eConv struct {
	name string
	enc  func(...string) string
	lib  caseconversion.EncodeCasingFunc
}

var eConvs = []eConv{
	{"kebab", encKebab, caseconversion.EncodeKebabCase},
	{"UPPER_SNAKE", encUpperSnake, caseconversion.EncodeUpperSnakeCase},
	{"lowerCamel", encLowerCamel, caseconversion.EncodeLowerCamelCase},
	{"snake (no change)", encSnake, caseconversion.EncodeLowerSnakeCase},
}

type C20ElemCase struct {
	Conv    int      `json:"conv"`
	Via     int      `json:"via"` // 0 ReformatDialsTagSource, 1 NewTransformingSource(reformat), 2 NewTransformingSource(set->slice, reformat)
	Initial ELayer   `json:"initial"`
	Updates []ELayer `json:"updates,omitempty"`
}

func genEVal(t *rapid.T) EVal {
	return EVal{Host: rapid.StringMatching("[a-z]{1,5}").Draw(t, "host"), Port: rapid.IntRange(1, 9999).Draw(t, "port"), Max: rapid.IntRange(0, 99).Draw(t, "max")}
}

func genELayer(t *rapid.T) ELayer {
	var l ELayer
	vals := func(label string) []EVal {
		var out []EVal
		for i, n := 0, rapid.IntRange(0, 3).Draw(t, label); i < n; i++ {
			out = append(out, genEVal(t))
		}
		return out
	}
	if rapid.Bool().Draw(t, "top") {
		s := rapid.StringMatching("[a-z]{1,6}").Draw(t, "top_name")
		l.TopName = &s
	}
	if rapid.Bool().Draw(t, "http_port") {
		v := rapid.IntRange(1, 65535).Draw(t, "http_port_v")
		l.HTTPPort = &v
	}
	if rapid.IntRange(0, 3).Draw(t, "items") != 0 {
		l.HasItems, l.Items = true, vals("n_items")
	}
	if rapid.Bool().Draw(t, "pair") {
		l.Pair = &[2]EVal{genEVal(t), genEVal(t)}
	}
	if rapid.Bool().Draw(t, "one") {
		v := genEVal(t)
		l.One = &v
	}
	if rapid.Bool().Draw(t, "box_label") {
		s := rapid.StringMatching("[a-z]{1,6}").Draw(t, "box_label_v")
		l.BoxLabel = &s
	}
	if rapid.Bool().Draw(t, "inner") {
		l.HasInner, l.BoxInner = true, vals("n_inner")
	}
	return l
}

func genC20Elem(t *rapid.T) C20ElemCase {
	c := C20ElemCase{Conv: rapid.IntRange(0, len(eConvs)-1).Draw(t, "conv"), Via: rapid.IntRange(0, 2).Draw(t, "via"), Initial: genELayer(t)}
	for i, n := 0, rapid.IntRange(0, 3).Draw(t, "updates"); i < n; i++ {
		c.Updates = append(c.Updates, genELayer(t))
	}
	return c
}

func runC20Elem(c C20ElemCase) (verdict vrt.Verdict) {
	if c.Conv < 0 || c.Conv >= len(eConvs) || c.Via < 0 || c.Via > 2 {
		return vrt.Discardf("bad case")
	}
	defer func() {
		if p := recover(); p != nil {
			verdict = vrt.KeyedViolationf("panic", "panic: %v", p)
		}
	}()
	conv := eConvs[c.Conv]
	ctx, cancel := context.WithCancel(context.Background())
	defer cancel()
	inner := &fake.Watcher{Mk: func(t *dials.Type) reflect.Value {
		v := reflect.New(t.Type()).Elem()
		strictFill(v, c.Initial, conv.enc)
		return v
	}}
	var wrapped dials.Source
	mangler := tagformat.NewTagReformattingMangler("dials", caseconversion.DecodeLowerSnakeCase, conv.lib)
	switch c.Via {
	case 0:
		wrapped = tagformat.ReformatDialsTagSource(inner, caseconversion.DecodeLowerSnakeCase, conv.lib)
	case 1:
		wrapped = sourcewrap.NewTransformingSource(inner, mangler)
	default:
		wrapped = sourcewrap.NewTransformingSource(inner, &transform.SetSliceMangler{}, mangler)
	}
	mkDefaults := func() *ECfg { return eStack(ELayer{}) }
	dw, err := dials.Config(ctx, mkDefaults(), wrapped)
	if err != nil {
		return vrt.KeyedViolationf("elements", "Config over the wrapped source failed: %v", err)
	}
	plain := &fake.Watcher{Mk: func(t *dials.Type) reflect.Value {
		v := reflect.New(t.Type()).Elem()
		strictFill(v, c.Initial, encSnake)
		return v
	}}
	dp, err := dials.Config(ctx, mkDefaults(), plain)
	if err != nil {
		return vrt.Violationf("reference Config failed: %v", err)
	}
	inCollections := 0
	count := func(l ELayer) {
		inCollections += len(l.Items) + len(l.BoxInner)
		if l.Pair != nil {
			inCollections += 2
		}
	}
	compare := func(step string, l ELayer) string {
		want := eStack(l)
		a, b := dw.View(), dp.View()
		if df := shape.Diff(reflect.ValueOf(b).Elem(), reflect.ValueOf(a).Elem()); df != "" {
			return fmt.Sprintf("%s: the view behind the %s wrapper differs from the unwrapped reference at %s (reference vs wrapped): keys of structs held in slices must be renamed like all others", step, conv.name, df)
		}
		if df := shape.Diff(reflect.ValueOf(want).Elem(), reflect.ValueOf(a).Elem()); df != "" {
			return fmt.Sprintf("%s: the view behind the %s wrapper differs from the model at %s (want vs got)", step, conv.name, df)
		}
		return ""
	}
	count(c.Initial)
	if m := compare("initial stack", c.Initial); m != "" {
		return vrt.KeyedViolationf("elements", "%s", m)
	}
	for i, u := range c.Updates {
		tv := reflect.New(inner.Type.Type()).Elem()
		strictFill(tv, u, conv.enc)
		nv := reflect.New(plain.Type.Type()).Elem()
		strictFill(nv, u, encSnake)
		if err := inner.Args.BlockingReportNewValue(ctx, tv); err != nil {
			return vrt.KeyedViolationf("elements", "update %d through the wrapper failed: %v", i, err)
		}
		if err := plain.Args.BlockingReportNewValue(ctx, nv); err != nil {
			return vrt.Violationf("reference update %d failed: %v", i, err)
		}
		count(u)
		if m := compare(fmt.Sprintf("after update %d", i), u); m != "" {
			return vrt.KeyedViolationf("elements", "%s", m)
		}
	}
	return vrt.OK(inCollections >= 1 && c.Conv != 3, "conv="+conv.name, fmt.Sprintf("via=%d", c.Via), fmt.Sprintf("updates=%d", len(c.Updates)))
}

func TestC20Elements(t *testing.T) {
	vrt.Check(t, vrt.Prop[C20ElemCase]{
		ID: "C20", Name: "elements", NoJournal: true,
		Rule: "a key-renaming wrapper (tag reformatting to kebab / UPPER_SNAKE / lowerCamel / unchanged; through ReformatDialsTagSource or NewTransformingSource, optionally after set->slice) around a watching inner source that - like a decoder - finds fields ONLY under the exact key of the target convention, over a config (mostly tagged, with untagged fields at the root and in elements whose key comes from the Go field name) with structs held in two slices, behind a pointer and in a slice inside a nested struct; initial value and 0..3 updates; " +
			"oracle: differential against an unwrapped Dials whose source uses the original keys, plus a pure model: views agree after the initial stack and every update; " +
			"non-trivial = a renaming convention and at least one struct inside a collection was supplied; distinct = distinct case JSON",
		Assumptions: []string{"multi-word lower_snake dials tags, so that every convention spells them differently",
			"arrays of structs (pointerified to *[N]Struct), slices of pointers to structs and map values are not descended into by the library's tag manglers on the unmodified tree and no document promises it; they are left out"},
		Gen: genC20Elem, Run: runC20Elem,
	})
}
