package psim

import (
	"fmt"

	"pgregory.net/rapid"
)

// genProfile tunes the scenario generator for one property.
type genProfile struct {
	optSkip, optDelay, optSuppress bool // which options may be drawn
	forceDelay                     bool
	globalCBs                      int // percent of scenarios with OnNewConfig / OnWatchedError set
	minWatch, maxWatch             int
	maxStatic                      int
	maxOps                         int
	invalidPct                     int // percent of reports that set a negative Limit
	blockPct                       int
	prePct                         int      // percent of reports with an already cancelled context
	holds                          []string // hold points that may be used
	holdPct                        int
	cancelCallerPct                int
	wReport, wView, wEvents        int
	wReportErr, wRegister          int
	wUnregister, wReleaseCB        int
	wEnable                        int
	wDone                          int // a watcher finishes (Done) in the middle of the history while others keep watching
	slowPct                        int
	shutdownPct                    int // percent of scenarios that shut down and issue late ops
	unregTwicePct                  int
	lateOps                        []string
}

func ip(v int) *int { return &v }

type genState struct {
	counter  int
	handles  int
	nwatch   int
	invalid  int
	shutdown bool
}

func (g *genState) genLayer(t *rapid.T, src int, p genProfile) *SimLayer {
	g.counter++
	l := &SimLayer{}
	switch src {
	case 0:
		l.A = ip(g.counter)
	case 1:
		l.B = ip(g.counter)
	default:
		l.C = ip(g.counter)
	}
	if rapid.IntRange(0, 2).Draw(t, "set_shared") == 0 {
		l.Shared = ip(1000*(src+1) + g.counter)
	}
	if rapid.IntRange(0, 3).Draw(t, "set_name") == 0 {
		s := fmt.Sprintf("n%d-%d", src, g.counter)
		l.Name = &s
	}
	if rapid.IntRange(0, 3).Draw(t, "set_list") == 0 {
		l.HasList = true
		for i, n := 0, rapid.IntRange(0, 3).Draw(t, "list_len"); i < n; i++ {
			l.List = append(l.List, g.counter*10+i)
		}
	}
	if rapid.IntRange(0, 3).Draw(t, "set_m") == 0 {
		l.HasM = true
		l.M = map[string]int{}
		for i, n := 0, rapid.IntRange(0, 2).Draw(t, "m_len"); i < n; i++ {
			l.M[fmt.Sprintf("k%d", i)] = g.counter
		}
	}
	if rapid.IntRange(0, 3).Draw(t, "set_p") == 0 {
		l.P = ip(g.counter)
	}
	if rapid.IntRange(0, 3).Draw(t, "set_subx") == 0 {
		l.SubX = ip(g.counter)
	}
	if rapid.IntRange(0, 4).Draw(t, "set_suby") == 0 {
		s := fmt.Sprintf("y%d", g.counter)
		l.SubY = &s
	}
	if rapid.IntRange(0, 4).Draw(t, "set_psubx") == 0 {
		l.PSubX = ip(g.counter)
	}
	switch r := rapid.IntRange(0, 99).Draw(t, "limit"); {
	case r < p.invalidPct:
		l.Limit = ip(-g.counter)
	case r < p.invalidPct+35:
		l.Limit = ip(g.counter)
	}
	return l
}

func (g *genState) genDuring(t *rapid.T, p genProfile, block bool) []Op {
	var ops []Op
	n := rapid.IntRange(0, 3).Draw(t, "during_n")
	for i := 0; i < n; i++ {
		switch rapid.IntRange(0, 5).Draw(t, "during_kind") {
		case 0, 1:
			ops = append(ops, Op{K: "view"})
		case 2, 3:
			if p.wRegister > 0 {
				ops = append(ops, g.genRegister(t, p))
			} else {
				ops = append(ops, Op{K: "view"})
			}
		case 4:
			if g.handles > 0 && p.wUnregister > 0 {
				ops = append(ops, Op{K: "unregister", H: rapid.IntRange(0, g.handles-1).Draw(t, "during_unreg")})
			}
		case 5:
			if p.wEvents > 0 {
				ops = append(ops, Op{K: "events"})
			}
		}
	}
	if block && rapid.IntRange(0, 99).Draw(t, "cancelcaller") < p.cancelCallerPct {
		ops = append(ops, Op{K: "cancelcaller"})
	}
	return ops
}

func (g *genState) genRegister(t *rapid.T, p genProfile) Op {
	op := Op{K: "register", Ser: rapid.SampledFrom([]string{"fresh", "fresh", "stale", "stale", "zero"}).Draw(t, "ser")}
	if op.Ser == "stale" {
		op.StaleBy = rapid.IntRange(1, 3).Draw(t, "stale_by")
	}
	if rapid.IntRange(0, 99).Draw(t, "slow") < p.slowPct {
		op.Slow = true
	}
	g.handles++
	return op
}

func pickWeighted(t *rapid.T, label string, ws []int) int {
	total := 0
	for _, w := range ws {
		total += w
	}
	x := rapid.IntRange(0, total-1).Draw(t, label)
	for i, w := range ws {
		if x < w {
			return i
		}
		x -= w
	}
	return 0
}

func genScenario(t *rapid.T, p genProfile) Scenario {
	sc := Scenario{}
	if p.optSkip {
		sc.Skip = rapid.IntRange(0, 3).Draw(t, "skip") == 0
	}
	if p.forceDelay {
		sc.Delay = true
	} else if p.optDelay {
		sc.Delay = rapid.IntRange(0, 2).Draw(t, "delay") == 0
	}
	if p.optSuppress {
		sc.Suppress = rapid.Bool().Draw(t, "suppress")
	}
	sc.GlobalCBs = rapid.IntRange(0, 99).Draw(t, "global_cbs") < p.globalCBs
	sc.NWatch = rapid.IntRange(p.minWatch, p.maxWatch).Draw(t, "n_watch")
	sc.NStatic = rapid.IntRange(0, p.maxStatic).Draw(t, "n_static")
	g := &genState{nwatch: sc.NWatch}
	// defaults
	sc.Defaults = SimDefaults{A: -1, B: -2, C: -3, Shared: rapid.IntRange(0, 5).Draw(t, "d_shared"), Name: "default", SubX: 7, SubY: "dy"}
	if rapid.Bool().Draw(t, "d_list") {
		sc.Defaults.List = []int{1, 2}
	}
	if rapid.Bool().Draw(t, "d_m") {
		sc.Defaults.M = map[string]int{"d": 1}
	}
	if rapid.Bool().Draw(t, "d_p") {
		sc.Defaults.P = ip(5)
	}
	if rapid.Bool().Draw(t, "d_psub") {
		sc.Defaults.PSub, sc.Defaults.PSubX = true, 9
	}
	if (sc.Skip || sc.Delay) && rapid.IntRange(0, 3).Draw(t, "d_invalid") == 0 {
		sc.Defaults.Limit = -100
	}
	initP := p
	if !(sc.Skip || sc.Delay) {
		// an invalid initial stack ends the scenario at once: keep it rare
		initP.invalidPct = 0
		if rapid.IntRange(0, 24).Draw(t, "init_invalid") == 13 {
			initP.invalidPct = 100
		}
	}
	for i := 0; i < sc.NStatic; i++ {
		l := &SimLayer{}
		if rapid.Bool().Draw(t, "static_shared") {
			l.Shared = ip(500 + i)
		}
		if rapid.Bool().Draw(t, "static_name") {
			s := fmt.Sprintf("static%d", i)
			l.Name = &s
		}
		sc.Init = append(sc.Init, *l)
	}
	for i := 0; i < sc.NWatch; i++ {
		sc.Init = append(sc.Init, *g.genLayer(t, i, initP))
	}
	if sc.NWatch > 0 && rapid.IntRange(0, 3).Draw(t, "static_after") == 0 {
		// a non-watching source AFTER the watchers: it outranks their updates
		sc.NStaticAfter = 1
		l := &SimLayer{}
		if rapid.Bool().Draw(t, "after_shared") {
			l.Shared = ip(900)
		}
		if rapid.Bool().Draw(t, "after_a") {
			l.A = ip(901)
		}
		if rapid.Bool().Draw(t, "after_list") {
			l.HasList, l.List = true, []int{9, 0, 2}
		}
		if rapid.Bool().Draw(t, "after_psubx") {
			l.PSubX = ip(903)
		}
		sc.Init = append(sc.Init, *l)
	}
	nops := rapid.IntRange(1, p.maxOps).Draw(t, "n_ops")
	weights := []int{p.wReport, p.wView, p.wEvents, p.wReportErr, p.wRegister, p.wUnregister, p.wReleaseCB, p.wEnable, p.wDone}
	if sc.NWatch == 0 {
		weights = []int{0, p.wView + 1, p.wEvents, 0, p.wRegister, 0, 0, p.wEnable, 0}
	}
	// sources that are still watching (a finished one reports nothing more)
	live := make([]int, 0, sc.NWatch)
	for i := 0; i < sc.NWatch; i++ {
		live = append(live, i)
	}
	lastLayer := map[int]*SimLayer{}
	var finished []int
	pickLive := func(label string) int {
		if len(live) == sc.NWatch {
			return rapid.IntRange(0, sc.NWatch-1).Draw(t, label) // same draws as before wDone existed
		}
		return live[rapid.IntRange(0, len(live)-1).Draw(t, label)]
	}
	for i := 0; i < nops; i++ {
		switch pickWeighted(t, "op", weights) {
		case 8:
			if len(finished) > 0 && (len(live) < 2 || rapid.IntRange(0, 2).Draw(t, "done_again") == 0) {
				// a watcher that already finished says Done once more (error path plus deferred clean-up): no effect
				sc.Ops = append(sc.Ops, Op{K: "done", Src: finished[rapid.IntRange(0, len(finished)-1).Draw(t, "done_again_src")]})
				continue
			}
			if len(live) < 2 {
				sc.Ops = append(sc.Ops, Op{K: "view"})
				continue
			}
			k := rapid.IntRange(0, len(live)-1).Draw(t, "done_mid")
			sc.Ops = append(sc.Ops, Op{K: "done", Src: live[k]})
			finished = append(finished, live[k])
			live = append(live[:k:k], live[k+1:]...)
		case 0:
			op := Op{K: "report", Src: pickLive("src")}
			if prev := lastLayer[op.Src]; prev != nil && rapid.IntRange(0, 6).Draw(t, "repeat_last") == 0 {
				// the source re-reports exactly what it reported last (valid or not):
				// it is stacked, verified and announced like any other report
				cp := *prev
				op.L = &cp
				// ... half of the time as the very same value object (a source that
				// caches what it decoded and hands out the pointer again)
				op.SamePtr = rapid.Bool().Draw(t, "same_ptr")
			} else {
				op.L = g.genLayer(t, op.Src, p)
			}
			lastLayer[op.Src] = op.L
			op.Block = rapid.IntRange(0, 99).Draw(t, "block") < p.blockPct
			if rapid.IntRange(0, 99).Draw(t, "pre") < p.prePct {
				op.Ctx = "pre"
			} else if len(p.holds) > 0 && rapid.IntRange(0, 99).Draw(t, "hold") < p.holdPct {
				op.Hold = rapid.SampledFrom(p.holds).Draw(t, "hold_point")
				if op.Hold == "reply" {
					op.Block = true
				}
				op.During = g.genDuring(t, p, op.Block)
			}
			sc.Ops = append(sc.Ops, op)
		case 1:
			sc.Ops = append(sc.Ops, Op{K: "view"})
		case 2:
			sc.Ops = append(sc.Ops, Op{K: "events"})
		case 3:
			sc.Ops = append(sc.Ops, Op{K: "reporterr", Src: pickLive("src")})
		case 4:
			sc.Ops = append(sc.Ops, g.genRegister(t, p))
		case 5:
			if g.handles > 0 {
				h := rapid.IntRange(0, g.handles-1).Draw(t, "unreg_h")
				sc.Ops = append(sc.Ops, Op{K: "unregister", H: h})
				if rapid.IntRange(0, 99).Draw(t, "unreg_twice") < p.unregTwicePct {
					sc.Ops = append(sc.Ops, Op{K: "unregister", H: h})
				}
			}
		case 6:
			sc.Ops = append(sc.Ops, Op{K: "releasecb"})
		case 7:
			sc.Ops = append(sc.Ops, Op{K: "enable"})
		}
	}
	if sc.NWatch > 0 && rapid.IntRange(0, 99).Draw(t, "shutdown") < p.shutdownPct {
		if rapid.Bool().Draw(t, "shutdown_by_cancel") {
			sc.Ops = append(sc.Ops, Op{K: "cancel"})
		} else {
			perm := rapid.Permutation(append([]int{}, live...)).Draw(t, "done_order")
			for _, s := range perm {
				sc.Ops = append(sc.Ops, Op{K: "done", Src: s})
				if rapid.IntRange(0, 3).Draw(t, "between_done") == 0 {
					sc.Ops = append(sc.Ops, Op{K: "view"})
				}
			}
		}
		sc.Ops = append(sc.Ops, Op{K: "releasecb"})
		for i, n := 0, rapid.IntRange(1, 6).Draw(t, "n_late"); i < n && len(p.lateOps) > 0; i++ {
			op := Op{K: "late", Late: rapid.SampledFrom(p.lateOps).Draw(t, "late")}
			op.Src = rapid.IntRange(0, sc.NWatch-1).Draw(t, "late_src")
			if op.Late == "unregister" {
				if g.handles == 0 {
					continue
				}
				op.H = rapid.IntRange(0, g.handles-1).Draw(t, "late_h")
			}
			if op.Late == "register" {
				op.Ser = rapid.SampledFrom([]string{"fresh", "zero"}).Draw(t, "late_ser")
				g.handles++
			}
			sc.Ops = append(sc.Ops, op)
		}
	}
	return sc
}
