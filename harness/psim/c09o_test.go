package psim

import (
	"context"
	"fmt"
	"sync"
	"testing"
	"testing/synctest"

	"github.com/vimeo/dials"
	"pgregory.net/rapid"

	"verifharness/internal/fake"
	"verifharness/internal/vrt"
)

// C09OCase: delayed verification is switched on while the callback goroutine
// lags behind (parked in a registered callback, optionally with the callback
// queue overflowed); once it has caught up, every further update must reach
// the global callbacks.
type C09OCase struct {
	Delay    bool `json:"delay"`
	Suppress bool `json:"suppress"`
	Before   int  `json:"before"`              // updates installed while parked, before the enable
	Between  int  `json:"between"`             // updates installed while parked, after the enable
	After    int  `json:"after"`               // updates installed after the callback goroutine caught up
	ErrAfter bool `json:"err_after,omitempty"` // a source error reported after catching up
	// ErrsBefore: source errors reported while parked, before the enable (they
	// are interleaved with the Before updates)
	ErrsBefore int `json:"errs_before,omitempty"`
}

func genC09O(t *rapid.T) C09OCase {
	c := C09OCase{Delay: rapid.IntRange(0, 4).Draw(t, "delay") != 0, Suppress: rapid.IntRange(0, 4).Draw(t, "suppress") != 0}
	if rapid.Bool().Draw(t, "overflow") {
		c.Before = 1 + cbQueueCap + rapid.IntRange(0, 6).Draw(t, "extra")
	} else {
		c.Before = rapid.IntRange(0, 5).Draw(t, "before")
	}
	c.Between = rapid.IntRange(0, 3).Draw(t, "between")
	c.After = rapid.IntRange(1, 4).Draw(t, "after")
	c.ErrAfter = rapid.Bool().Draw(t, "err_after")
	c.ErrsBefore = rapid.IntRange(0, 2).Draw(t, "errs_before")
	return c
}

func runC09O(c C09OCase) (verdict vrt.Verdict) {
	if c.Before < 0 || c.Before > 200 || c.Between < 0 || c.Between > 20 || c.After < 1 || c.After > 20 {
		return vrt.Discardf("bad case")
	}
	var msg string
	fail := func(format string, a ...any) {
		if msg == "" {
			msg = fmt.Sprintf(format, a...)
		}
	}
	defer func() {
		if p := recover(); p != nil {
			verdict = vrt.KeyedViolationf("panic", "panic / synctest failure: %v", p)
		}
	}()
	synctest.Test(curT, func(st *testing.T) {
		ctx, cancel := context.WithCancel(context.Background())
		gate := make(chan struct{})
		var once sync.Once
		release := func() { once.Do(func() { close(gate) }) }
		defer func() { release(); cancel(); synctest.Wait() }()
		uVerifyMu.Lock()
		uVerifyLog = nil
		uVerifyMu.Unlock()
		var mu sync.Mutex
		var news [][2]*UCfg
		var errs []error
		parked := false
		params := dials.Params[UCfg]{DelayInitialVerification: c.Delay, CallGlobalCallbacksAfterVerificationEnabled: c.Suppress,
			OnNewConfig: func(_ context.Context, o, n *UCfg) {
				mu.Lock()
				news = append(news, [2]*UCfg{o, n})
				mu.Unlock()
			},
			OnWatchedError: func(_ context.Context, err error, _, _ *UCfg) {
				mu.Lock()
				errs = append(errs, err)
				mu.Unlock()
			}}
		w := &fake.Watcher{}
		d, err := params.Config(ctx, &UCfg{N: 0, I: ULabel{Text: "default"}}, w)
		if err != nil {
			fail("Config failed: %v", err)
			return
		}
		_, tok := d.ViewVersion()
		if unreg := d.RegisterCallback(ctx, tok, func(context.Context, *UCfg, *UCfg) {
			mu.Lock()
			first := !parked
			parked = true
			mu.Unlock()
			if first {
				<-gate
			}
		}); unreg == nil {
			fail("RegisterCallback failed")
			return
		}
		synctest.Wait()
		pt := w.Type.Type()
		n := 0
		report := func(what string) *UCfg {
			n++
			op := UOp{N: n}
			if err := w.Args.BlockingReportNewValue(ctx, uLayer(pt, &op)); err != nil {
				fail("%s: blocking report of a valid value returned %v", what, err)
				return nil
			}
			v := d.View()
			if v.N != n {
				fail("%s: the view holds N=%d after a blocking report of N=%d returned nil", what, v.N, n)
				return nil
			}
			return v
		}
		// the first update parks the callback goroutine in the registered callback
		if report("parking update") == nil {
			return
		}
		synctest.Wait()
		errsLeft := c.ErrsBefore
		reportErrBefore := func() bool {
			errsLeft--
			if err := w.Args.ReportError(ctx, errPlainSource); err != nil {
				fail("ReportError while the callback goroutine is parked returned %v", err)
				return false
			}
			return true
		}
		for i := 0; i < c.Before; i++ {
			if errsLeft > 0 && i%2 == 1 && !reportErrBefore() {
				return
			}
			if report(fmt.Sprintf("update %d while the callback goroutine is parked, before the enable", i)) == nil {
				return
			}
		}
		for errsLeft > 0 {
			if !reportErrBefore() {
				return
			}
		}
		mu.Lock()
		newsDuringDelay := len(news)
		mu.Unlock()
		if c.Delay && c.Suppress && newsDuringDelay != 0 {
			fail("OnNewConfig was called %d time(s) while the delay is in force and the suppress option is set", newsDuringDelay)
			return
		}
		cfg, etok, enErr := d.EnableVerification(ctx)
		if enErr != nil {
			fail("EnableVerification (every installed config is valid) returned %v", enErr)
			return
		}
		if cur, ctok := d.ViewVersion(); cfg != cur || etok != ctok {
			fail("EnableVerification returned (%p, serial %d), want the installed config (%p, serial %d)", cfg, serialOf(etok), cur, serialOf(ctok))
			return
		}
		for i := 0; i < c.Between; i++ {
			if report(fmt.Sprintf("update %d while the callback goroutine is parked, after the enable", i)) == nil {
				return
			}
		}
		release()
		synctest.Wait() // the callback goroutine drains its queue
		mu.Lock()
		errsDrained := len(errs)
		mu.Unlock()
		if c.Delay && c.Suppress && errsDrained != 0 {
			fail("%d source error(s) reported while the delay was in force and the suppress option set reached OnWatchedError once the callback goroutine caught up after the enable: what is withheld is decided when it happens, not when it is delivered", errsDrained)
			return
		}
		if !(c.Delay && c.Suppress) && c.Before <= cbQueueCap/2 && errsDrained != c.ErrsBefore {
			fail("%d source error(s) were reported (nothing suppressed, queue far from full) but OnWatchedError saw %d", c.ErrsBefore, errsDrained)
			return
		}
		prev := d.View()
		for i := 0; i < c.After; i++ {
			mu.Lock()
			before := len(news)
			mu.Unlock()
			v := report(fmt.Sprintf("update %d after the callback goroutine caught up", i))
			if v == nil {
				return
			}
			synctest.Wait()
			mu.Lock()
			got := append([][2]*UCfg{}, news[before:]...)
			mu.Unlock()
			if len(got) != 1 || got[0][0] != prev || got[0][1] != v {
				fail("update %d after a successful EnableVerification and after the callback goroutine caught up (delay=%v suppress=%v, %d updates before the enable, %d between): OnNewConfig must be called exactly once with (previous, installed); got %d call(s)", i, c.Delay, c.Suppress, c.Before, c.Between, len(got))
				return
			}
			prev = v
		}
		if c.ErrAfter {
			mu.Lock()
			before := len(errs)
			mu.Unlock()
			if err := w.Args.ReportError(ctx, errPlainSource); err != nil {
				fail("ReportError returned %v", err)
				return
			}
			synctest.Wait()
			mu.Lock()
			got := len(errs) - before
			mu.Unlock()
			if got != 1 {
				fail("a source error reported after a successful EnableVerification reached OnWatchedError %d times, want once", got)
				return
			}
		}
	})
	if msg != "" {
		return vrt.KeyedViolationf("enable-while-lagging", "%s", msg)
	}
	return vrt.OK(c.Delay && c.Suppress, fmt.Sprintf("delay=%v,suppress=%v", c.Delay, c.Suppress), fmt.Sprintf("overflowed=%v", c.Before > cbQueueCap), fmt.Sprintf("between=%d", c.Between))
}

func TestC09Overflow(t *testing.T) {
	curT = t
	vrt.Check(t, vrt.Prop[C09OCase]{
		ID: "C09", Name: "lagging",
		Rule: "Delay x Suppress option combinations; the callback goroutine is parked in a registered callback while 0..5 or 65..71 updates are installed (the latter overflows the 64-slot callback queue), EnableVerification is called (all configs valid; 0..2 source errors are reported among the earlier updates), 0..3 more updates follow, the callback is released and the queue drains; then 1..4 updates and optionally a source error; inside a synctest bubble; " +
			"oracle: nothing reaches OnNewConfig while delay-in-force && suppress; the enable returns the installed config and serial; once the callback goroutine has caught up, every update is announced to OnNewConfig exactly once with (previous, installed) and a source error reaches OnWatchedError once - the end of the delay must not depend on an event that can be dropped; " +
			"non-trivial = Delay and Suppress both set; distinct = distinct case JSON",
		Assumptions: []string{"events submitted while the queue is full may be dropped (documented); only updates made after the queue drained are required to be announced"},
		Gen:         genC09O, Run: runC09O,
	})
}
