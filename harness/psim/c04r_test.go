package psim

import (
	"context"
	"errors"
	"fmt"
	"sync"
	"testing"
	"testing/synctest"

	"github.com/vimeo/dials"
	"pgregory.net/rapid"

	"verifharness/internal/fake"
	"verifharness/internal/vrt"
)

// C04RCase: an update arrives WHILE EnableVerification is verifying the
// installed config.  Switching verification on is atomic: the racing update is
// handled either entirely before the enable (it is then part of what gets
// verified) or entirely after it (it is then verified itself).
type C04RCase struct {
	Suppress    bool `json:"suppress,omitempty"`
	Pre         int  `json:"pre"`          // valid updates installed during the delay
	RaceInvalid bool `json:"race_invalid"` // the racing update does not verify
	RaceBlock   bool `json:"race_block"`   // it is reported with BlockingReportNewValue
	OtherSource bool `json:"other_source"` // it comes from a second watcher
}

func genC04R(t *rapid.T) C04RCase {
	return C04RCase{Suppress: rapid.Bool().Draw(t, "suppress"), Pre: rapid.IntRange(0, 3).Draw(t, "pre"),
		RaceInvalid: rapid.IntRange(0, 3).Draw(t, "race_invalid") != 0, RaceBlock: rapid.Bool().Draw(t, "race_block"), OtherSource: rapid.Bool().Draw(t, "other_source")}
}

func runC04R(c C04RCase) (verdict vrt.Verdict) {
	if c.Pre < 0 || c.Pre > 20 {
		return vrt.Discardf("bad case")
	}
	var msg string
	fail := func(format string, a ...any) {
		if msg == "" {
			msg = fmt.Sprintf(format, a...)
		}
	}
	defer uVerifyHook.Store(nil)
	defer func() {
		if p := recover(); p != nil {
			verdict = vrt.KeyedViolationf("panic", "panic / synctest failure: %v", p)
		}
	}()
	synctest.Test(curT, func(st *testing.T) {
		ctx, cancel := context.WithCancel(context.Background())
		defer func() { uVerifyHook.Store(nil); cancel(); synctest.Wait() }()
		uVerifyMu.Lock()
		uVerifyLog = nil
		uVerifyMu.Unlock()
		var mu sync.Mutex
		var watchErrs []error
		params := dials.Params[UCfg]{DelayInitialVerification: true, CallGlobalCallbacksAfterVerificationEnabled: c.Suppress,
			OnWatchedError: func(_ context.Context, err error, _, _ *UCfg) {
				mu.Lock()
				watchErrs = append(watchErrs, err)
				mu.Unlock()
			}}
		w1, w2 := &fake.Watcher{}, &fake.Watcher{}
		d, err := params.Config(ctx, &UCfg{N: 0, I: ULabel{Text: "default"}}, w1, w2)
		if err != nil {
			fail("Config failed: %v", err)
			return
		}
		pt := w1.Type.Type()
		for i := 0; i < c.Pre; i++ {
			op := UOp{N: i + 1}
			if err := w1.Args.BlockingReportNewValue(ctx, uLayer(pt, &op)); err != nil {
				fail("pre-update %d failed: %v", i, err)
				return
			}
		}
		pre, preTok := d.ViewVersion()
		uVerifyMu.Lock()
		if len(uVerifyLog) != 0 {
			uVerifyMu.Unlock()
			fail("Verify was called %d time(s) before EnableVerification", len(uVerifyLog))
			return
		}
		uVerifyMu.Unlock()
		// the racing update is fired from inside the enable's Verify call
		raceOp := UOp{N: 500}
		if c.RaceInvalid {
			v := -7
			raceOp.Limit = &v
		}
		racer := w1
		if c.OtherSource {
			racer = w2
		}
		var raceErr error
		raceDone := make(chan struct{})
		var once sync.Once
		hook := func(*UCfg) {
			once.Do(func() {
				go func() {
					defer close(raceDone)
					if c.RaceBlock {
						raceErr = racer.Args.BlockingReportNewValue(ctx, uLayer(pt, &raceOp))
					} else {
						raceErr = racer.Args.ReportNewValue(ctx, uLayer(pt, &raceOp))
					}
				}()
				synctest.Wait() // the report gets as far as it can while this Verify call is still running
			})
		}
		uVerifyHook.Store(&hook)
		cfg, tok, enErr := d.EnableVerification(ctx)
		uVerifyHook.Store(nil)
		synctest.Wait()
		select {
		case <-raceDone:
		default:
			fail("the racing report never returned")
			return
		}
		uVerifyMu.Lock()
		vlog := append([]*UCfg{}, uVerifyLog...)
		uVerifyMu.Unlock()
		view, vtok := d.ViewVersion()
		// what the enable verified is what it returns
		if enErr != nil {
			// legal only if the racing invalid update was installed BEFORE the enable (order race -> enable)
			if !(c.RaceInvalid && view != pre) {
				fail("EnableVerification returned %v although the installed config verifies", enErr)
				return
			}
		} else {
			if len(vlog) == 0 || vlog[0] != cfg {
				fail("EnableVerification returned a config (N=%d Limit=%d) that is not the one it verified", cfg.N, cfg.Limit)
				return
			}
			if cfg.Limit < 0 {
				fail("EnableVerification succeeded and returned a config that does not verify (N=%d Limit=%d)", cfg.N, cfg.Limit)
				return
			}
			_ = tok
		}
		// with verification active, nothing unverified is visible
		if enErr == nil {
			if view.Limit < 0 {
				fail("after a successful EnableVerification the view holds a config that does not verify (N=%d Limit=%d): an update that raced with the enable was installed without verification (pre-race view N=%d serial %d, now serial %d)", view.N, view.Limit, pre.N, serialOf(preTok), serialOf(vtok))
				return
			}
			verified := false
			for _, v := range vlog {
				if v == view {
					verified = true
				}
			}
			if !verified {
				fail("after a successful EnableVerification the view (N=%d) was never passed to Verify", view.N)
				return
			}
			if c.RaceInvalid {
				if view != pre {
					fail("the racing invalid update changed the view although verification was switched on")
					return
				}
				if c.RaceBlock && !errors.Is(raceErr, ErrInvalid) {
					fail("the racing blocking report of an invalid update returned %v, want the verifier's error", raceErr)
					return
				}
			} else if view.N != 500 {
				fail("the racing valid update was lost: view N=%d", view.N)
				return
			}
		}
	})
	if msg != "" {
		return vrt.KeyedViolationf("enable-race", "%s", msg)
	}
	return vrt.OK(c.RaceInvalid, fmt.Sprintf("race_invalid=%v", c.RaceInvalid), fmt.Sprintf("race_block=%v", c.RaceBlock), fmt.Sprintf("other_source=%v", c.OtherSource), fmt.Sprintf("pre=%d", c.Pre))
}

func TestC04EnableRace(t *testing.T) {
	curT = t
	vrt.Check(t, vrt.Prop[C04RCase]{
		ID: "C04", Name: "enable-race", NoJournal: false,
		Rule: "delayed verification with 0..3 valid updates installed, then EnableVerification with an update (valid or not, blocking or not, from the same or another watcher) fired from inside the enable's own Verify call and allowed to run as far as the library lets it (synctest.Wait inside Verify); " +
			"oracle: the enable returns exactly the config it verified; after a successful enable the view verifies and was itself passed to Verify; a racing invalid update leaves the view unchanged and its blocking report returns the verifier's error; a racing valid update is not lost; " +
			"non-trivial = the racing update does not verify; distinct = distinct case JSON",
		Assumptions: []string{"both serial orders of the racing update and the enable are accepted; only mixtures are violations"},
		Gen:         genC04R, Run: runC04R,
	})
}

func TestC09EnableRace(t *testing.T) {
	curT = t
	vrt.Check(t, vrt.Prop[C04RCase]{
		ID: "C09", Name: "enable-race",
		Rule: "the histories of C04/enable-race (an update fired from inside the enable's own Verify call); " +
			"oracle (C09's clause 'atomic switch-on'): EnableVerification verifies exactly the installed config and returns that config, and from then on every re-stack - also one that raced with the enable - is verified; " +
			"non-trivial = the racing update does not verify; distinct = distinct case JSON",
		Assumptions: []string{"see C04/enable-race"},
		Gen:         genC04R, Run: runC04R,
	})
}
