package psim

import (
	"context"
	"fmt"
	"reflect"
	"testing"
	"testing/synctest"

	"github.com/vimeo/dials"
	"github.com/vimeo/dials/ptrify"
	"pgregory.net/rapid"

	"verifharness/internal/shape"
	"verifharness/internal/vrt"
)

// twinWatcher keeps nothing but what Watch handed it: two of them are distinct
// objects that are deeply equal (their WatchArgs point back at themselves).
type twinWatcher struct {
	args dials.WatchArgs
	typ  *dials.Type
}

func (w *twinWatcher) Value(_ context.Context, t *dials.Type) (reflect.Value, error) {
	return reflect.New(t.Type()).Elem(), nil
}

func (w *twinWatcher) Watch(_ context.Context, t *dials.Type, args dials.WatchArgs) error {
	w.args, w.typ = args, t
	return nil
}

type C05TwinOp struct {
	Src int      `json:"src"`
	L   SimLayer `json:"l"`
}

type C05TwinCase struct {
	N   int         `json:"n"`
	Ops []C05TwinOp `json:"ops"`
}

func genC05Twins(t *rapid.T) C05TwinCase {
	c := C05TwinCase{N: rapid.IntRange(2, 4).Draw(t, "n")}
	g := &genState{nwatch: c.N}
	for i, k := 0, rapid.IntRange(2, 8).Draw(t, "ops"); i < k; i++ {
		src := rapid.IntRange(0, c.N-1).Draw(t, "src")
		c.Ops = append(c.Ops, C05TwinOp{Src: src, L: *g.genLayer(t, src, genProfile{})})
	}
	return c
}

func runC05Twins(c C05TwinCase) (verdict vrt.Verdict) {
	if c.N < 2 || c.N > 6 || len(c.Ops) == 0 {
		return vrt.Discardf("bad case")
	}
	var msg string
	fail := func(format string, a ...any) {
		if msg == "" {
			msg = fmt.Sprintf(format, a...)
		}
	}
	defer func() {
		if p := recover(); p != nil {
			verdict = vrt.KeyedViolationf("panic", "panic / synctest failure: %v", p)
		}
	}()
	srcsUsed := map[int]bool{}
	synctest.Test(curT, func(*testing.T) {
		ctx, cancel := context.WithCancel(context.Background())
		defer func() { cancel(); synctest.Wait() }()
		defs := SimDefaults{A: -1, B: -2, C: -3, Name: "default", SubX: 7, SubY: "dy"}
		ws := make([]*twinWatcher, c.N)
		srcs := make([]dials.Source, c.N)
		for i := range ws {
			ws[i] = &twinWatcher{}
			srcs[i] = ws[i]
		}
		d, err := dials.Params[SimCfg]{SkipInitialVerification: true}.Config(ctx, defs.Cfg(), srcs...)
		if err != nil {
			fail("Config failed: %v", err)
			return
		}
		pt := ptrify.Pointerify(reflect.TypeOf(SimCfg{}), reflect.ValueOf(defs.Cfg()).Elem())
		slots := make([]SimLayer, c.N)
		for i, op := range c.Ops {
			if op.Src < 0 || op.Src >= c.N {
				fail("bad op")
				return
			}
			l := op.L
			l.Limit = nil // every stack verifies
			if err := ws[op.Src].args.BlockingReportNewValue(ctx, l.Value(pt)); err != nil {
				fail("op %d: blocking report from watcher %d returned %v", i, op.Src, err)
				return
			}
			slots[op.Src] = l
			srcsUsed[op.Src] = true
			want := Stack(defs, slots)
			if df := shape.Diff(reflect.ValueOf(want).Elem(), reflect.ValueOf(d.View()).Elem()); df != "" {
				fail("op %d (report from watcher %d of %d deeply equal watchers): the view differs from a fresh stack of every watcher's latest value at %s (want vs got): a report must replace ITS OWN source's slot (sources are matched by identity)", i, op.Src, c.N, df)
				return
			}
		}
	})
	if msg != "" {
		return vrt.KeyedViolationf("twins", "%s", msg)
	}
	return vrt.OK(len(srcsUsed) >= 2, fmt.Sprintf("watchers=%d", c.N), fmt.Sprintf("reporting=%d", len(srcsUsed)))
}

func TestC05Twins(t *testing.T) {
	curT = t
	vrt.Check(t, vrt.Prop[C05TwinCase]{
		ID: "C05", Name: "twins",
		Rule: "2..4 watching sources of one type that keep nothing but what Watch handed them - distinct objects that are deeply equal - and 2..8 blocking reports from any of them inside a synctest bubble; " +
			"oracle: after every report the view deep-equals the pure reference stack of the defaults and each watcher's latest value (a report replaces the slot of the source that made it, matched by identity); " +
			"non-trivial = at least two different watchers reported; distinct = distinct case JSON",
		Gen: genC05Twins, Run: runC05Twins,
	})
}
