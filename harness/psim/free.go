package psim

import (
	"context"
	"errors"
	"fmt"
	"reflect"
	"runtime/debug"
	"sort"
	"strings"
	"sync"
	"testing"
	"testing/synctest"
	"time"

	"github.com/vimeo/dials"
	"github.com/vimeo/dials/ptrify"

	"verifharness/internal/fake"
	"verifharness/internal/shape"
)

// FreeOp is one operation of a free-running actor.
type FreeOp struct {
	K       string    `json:"k"` // report reporterr view events register unregister enable done
	L       *SimLayer `json:"l,omitempty"`
	Block   bool      `json:"block,omitempty"`
	DelayNS int       `json:"delay_ns"` // virtual time to sleep before the op
	Zero    bool      `json:"zero,omitempty"`
	Forever bool      `json:"forever,omitempty"` // register: the callback blocks until the end of the case
	H       int       `json:"h,omitempty"`       // unregister: index among this actor's registrations
	Burst   int       `json:"burst,omitempty"`   // report: send this many further values right after (own counter incremented), to overflow the callback queue
}

// Actor is one goroutine; reporters own one source.
type Actor struct {
	Src int      `json:"src"` // >=0: reporter of that source; -1: client
	Ops []FreeOp `json:"ops"`
}

// FreeScenario is a free-running case: the harness does not predict the
// interleaving, only history invariants are checked.
type FreeScenario struct {
	Skip       bool        `json:"skip,omitempty"`
	Delay      bool        `json:"delay,omitempty"`
	Suppress   bool        `json:"suppress,omitempty"`
	NWatch     int         `json:"n_watch"`
	Defaults   SimDefaults `json:"defaults"`
	Init       []SimLayer  `json:"init"`
	Actors     []Actor     `json:"actors"`
	CancelAtNS int         `json:"cancel_at_ns"` // >0: cancel the Config context at this virtual time
	Late       []string    `json:"late,omitempty"`
}

type histEntry struct {
	at    time.Duration
	actor int
	op    string
	res   string
}

type freeRun struct {
	sc  *FreeScenario
	res *Result
	d   *dials.Dials[SimCfg]
	ws  []*fake.Watcher
	pt  reflect.Type
	t0  time.Time

	mu            sync.Mutex
	vmu           sync.Mutex
	hist          []histEntry
	verified      map[*SimCfg]bool // Verify returned nil for it
	verifyCnt     int
	stores        []storeRec
	serialOf      map[*SimCfg]uint64
	cbs           []cbRec
	inCB          int
	seq           int
	exited        bool
	cancelled     bool
	cancelAt      time.Duration
	initial       *SimCfg
	forever       chan struct{}
	unregTrue     map[string]int // handle name -> seq at which unregister returned true
	lastRep       []SimLayer     // latest value handed to a report call that was accepted, per source
	regSerial     map[string]uint64
	enableOK      bool
	doneCnt       int
	timedOut      bool
	enableStarted bool
	enables       []enableRec
	seen          []seenRec
	pairs         []pairRec
	evSeen        []evRec
}

type evRec struct {
	actor int
	c     *SimCfg
}

type pairRec struct {
	c *SimCfg
	s uint64
}

type enableRec struct {
	serial uint64
	cfg    *SimCfg
}

type seenRec struct {
	c     *SimCfg
	where string
}

func (r *freeRun) anyInvalid() bool {
	if r.sc.Defaults.Limit < 0 {
		return true
	}
	for _, l := range r.sc.Init {
		if l.Limit != nil && *l.Limit < 0 {
			return true
		}
	}
	for _, a := range r.sc.Actors {
		for _, op := range a.Ops {
			if op.L != nil && op.L.Limit != nil && *op.L.Limit < 0 {
				return true
			}
		}
	}
	return false
}

func (r *freeRun) viol(tag, format string, a ...any) {
	r.vmu.Lock()
	defer r.vmu.Unlock()
	if r.res.Viol == nil {
		r.res.Viol = &Violation{Tag: tag, Msg: fmt.Sprintf(format, a...) + "\nhistory:\n" + r.history()}
	}
}

func (r *freeRun) history() string {
	r.mu.Lock()
	defer r.mu.Unlock()
	var b strings.Builder
	for i, h := range r.hist {
		if i > 120 {
			b.WriteString("  ...\n")
			break
		}
		fmt.Fprintf(&b, "  t=%-6v actor %d %s -> %s\n", h.at, h.actor, h.op, h.res)
	}
	return b.String()
}

func (r *freeRun) log(actor int, op, res string) {
	r.mu.Lock()
	r.hist = append(r.hist, histEntry{at: time.Since(r.t0), actor: actor, op: op, res: res})
	r.mu.Unlock()
}

func (r *freeRun) onVerifyFree(c *SimCfg, err error) {
	r.mu.Lock()
	early := r.sc.Delay && !r.enableStarted && r.d != nil
	r.mu.Unlock()
	if early {
		r.viol("C09", "Verify was invoked although EnableVerification has not been called yet (delayed verification)")
	}
	r.mu.Lock()
	r.verifyCnt++
	if err == nil {
		r.verified[c] = true
	}
	r.mu.Unlock()
}

// observed checks the provenance rule for a config pointer a program could see.
func (r *freeRun) observed(c *SimCfg, where string) {
	if c == nil {
		return
	}
	r.mu.Lock()
	ok := c == r.initial || r.verified[c]
	// whether it was stored is checked at the end: the store is visible a few
	// instructions before the schedule point records it
	r.seen = append(r.seen, seenRec{c, where})
	r.mu.Unlock()
	if !ok && !r.sc.Delay {
		// with delayed verification unverified installs are legitimate until the enable
		r.viol("C04", "%s exposed a config that never passed Verify although verification is active", where)
	}
}

var curFree *freeRun

func (r *freeRun) sched(point string) {
	switch point {
	case "mon.stored":
		cfg, ser := r.d.ViewVersion()
		s := serialOf(ser)
		r.mu.Lock()
		prev := uint64(0)
		if n := len(r.stores); n > 0 {
			prev = r.stores[n-1].serial
		}
		r.stores = append(r.stores, storeRec{serial: s, ptr: cfg})
		r.serialOf[cfg] = s
		ver := r.verified[cfg]
		r.mu.Unlock()
		if s != prev+1 {
			r.viol("C05", "version stored with serial %d after serial %d", s, prev)
		}
		if !ver && !r.sc.Delay {
			r.viol("C04", "a config was stored that did not pass Verify (verification active)")
		}
	case "mon.exit":
		r.mu.Lock()
		r.exited = true
		r.mu.Unlock()
	}
}

func (r *freeRun) makeCB(name string, regSerial uint64, forever bool) dials.NewConfigHandler[SimCfg] {
	return func(ctx context.Context, old, new *SimCfg) {
		r.mu.Lock()
		r.seq++
		idx := len(r.cbs)
		r.cbs = append(r.cbs, cbRec{who: name, old: old, new: new, enter: r.seq})
		r.inCB++
		overlap := r.inCB > 1
		ut, wasUnreg := r.unregTrue[name]
		r.mu.Unlock()
		if overlap {
			r.viol("C06", "callback %s entered while another callback was running", name)
		}
		if wasUnreg {
			r.viol("C06", "callback %s was invoked after its unregister function returned true (at seq %d)", name, ut)
		}
		r.observed(new, "callback "+name)
		if forever {
			<-r.forever
		}
		r.mu.Lock()
		r.seq++
		r.cbs[idx].exit = r.seq
		r.inCB--
		r.mu.Unlock()
	}
}

// RunFree executes a free-running scenario in a synctest bubble.
func RunFree(t *testing.T, sc *FreeScenario) (res *Result) {
	res = &Result{Labels: map[string]bool{}}
	if sc.NWatch < 1 || sc.NWatch > 3 || len(sc.Init) != sc.NWatch {
		res.Malformed = "bad scenario"
		return res
	}
	var fr *freeRun
	func() {
		defer func() {
			if p := recover(); p != nil {
				msg := fmt.Sprint(p)
				switch {
				case strings.Contains(msg, "deadlock"):
					msg = "deadlock: every goroutine in the bubble is blocked: " + clip(msg, 3000)
				case strings.Contains(msg, "blocked goroutines remain"):
					msg = "goroutine leak after shutdown: " + clip(msg, 3000)
				default:
					msg = "panic: " + clip(msg, 1500) + "\n" + clip(string(debug.Stack()), 2500)
				}
				if fr != nil {
					msg += "\nhistory:\n" + fr.history()
				}
				if res.Viol == nil {
					res.Viol = &Violation{Tag: "C08", Msg: msg}
				}
			}
		}()
		synctest.Test(t, func(st *testing.T) {
			fr = &freeRun{sc: sc, res: res, verified: map[*SimCfg]bool{}, serialOf: map[*SimCfg]uint64{}, unregTrue: map[string]int{}, regSerial: map[string]uint64{}}
			fr.main()
		})
	}()
	return res
}

func (r *freeRun) main() {
	sc := r.sc
	r.t0 = time.Now()
	r.forever = make(chan struct{})
	// Verify reports through the controlled-run pointer type; use a tiny adapter run
	adapter := &run{}
	adapter.free = r
	curRun.Store(adapter)
	defer curRun.Store(nil)
	hook := func(p string) { r.sched(p) }
	dials.VerifSched.Store(&hook)
	defer dials.VerifSched.Store(nil)

	cfgCtx, cfgCancel := context.WithCancel(context.Background())
	defer func() {
		close(r.forever)
		cfgCancel()
		synctest.Wait()
	}()
	defaults := sc.Defaults.Cfg()
	r.pt = ptrify.Pointerify(reflect.TypeOf(SimCfg{}), reflect.ValueOf(defaults).Elem())
	var srcs []dials.Source
	for i := 0; i < sc.NWatch; i++ {
		w := &fake.Watcher{V: sc.Init[i].Value(r.pt)}
		r.ws = append(r.ws, w)
		srcs = append(srcs, w)
	}
	r.lastRep = append([]SimLayer{}, sc.Init...)
	p := dials.Params[SimCfg]{SkipInitialVerification: sc.Skip, DelayInitialVerification: sc.Delay, CallGlobalCallbacksAfterVerificationEnabled: sc.Suppress}
	onNew := r.makeCB("onnew", 0, false)
	p.OnNewConfig = onNew
	p.OnWatchedError = func(ctx context.Context, err error, o, n *SimCfg) {
		r.mu.Lock()
		r.seq++
		idx := len(r.cbs)
		r.cbs = append(r.cbs, cbRec{who: "onerr", old: o, new: n, err: err, enter: r.seq})
		r.inCB++
		overlap := r.inCB > 1
		r.mu.Unlock()
		if overlap {
			r.viol("C06", "OnWatchedError entered while another callback was running")
		}
		r.observed(o, "OnWatchedError(old)")
		r.mu.Lock()
		r.seq++
		r.cbs[idx].exit = r.seq
		r.inCB--
		r.mu.Unlock()
	}
	init := Stack(sc.Defaults, sc.Init)
	d, err := p.Config(cfgCtx, defaults, srcs...)
	if err != nil {
		if !sc.Skip && !sc.Delay && init.Limit < 0 && errors.Is(err, ErrInvalid) {
			r.res.ConfigErr = true
			return
		}
		r.viol("C04", "Config failed: %v", err)
		return
	}
	if !sc.Skip && !sc.Delay && init.Limit < 0 {
		r.viol("C04", "Config succeeded although the initial stack does not verify")
		return
	}
	r.d = d
	r.initial = d.View()
	r.serialOf[r.initial] = 0
	if sc.Skip && !sc.Delay {
		// legitimately unverified initial version
		r.verified[r.initial] = true
	}

	cancelDone := make(chan struct{})
	if sc.CancelAtNS <= 0 {
		close(cancelDone)
	} else {
		r.cancelAt = time.Duration(sc.CancelAtNS)
		go func() {
			defer close(cancelDone)
			time.Sleep(r.cancelAt)
			r.mu.Lock()
			r.cancelled = true
			r.mu.Unlock()
			r.log(-1, "cancel Config context", "")
			cfgCancel()
		}()
	}
	doneCh := make(chan int, len(sc.Actors))
	for ai := range sc.Actors {
		go r.actor(ai, &sc.Actors[ai], doneCh)
	}
	for range sc.Actors {
		<-doneCh
	}
	<-cancelDone
	synctest.Wait()
	if r.res.Viol != nil {
		return
	}
	r.finalChecks()
	if r.res.Viol != nil {
		return
	}
	// late calls after a shutdown
	r.mu.Lock()
	exited := r.exited
	r.mu.Unlock()
	if exited {
		for _, l := range sc.Late {
			r.lateCall(l)
			if r.res.Viol != nil {
				return
			}
		}
	}
}

func (r *freeRun) shutdownStarted() bool {
	r.mu.Lock()
	defer r.mu.Unlock()
	return r.cancelled || r.exited || r.doneCnt > 0
}

func (r *freeRun) actor(ai int, a *Actor, doneCh chan<- int) {
	defer func() { doneCh <- ai }()
	type reg struct {
		name  string
		unreg dials.UnregisterCBFunc
	}
	var regs []reg
	lastSerial := uint64(0)
	for oi, op := range a.Ops {
		if op.DelayNS > 0 {
			time.Sleep(time.Duration(op.DelayNS))
		}
		ctx, cancel := context.WithTimeout(context.Background(), lateTimeout)
		t0 := time.Now()
		desc := op.K
		var resStr string
		before := r.shutdownStarted()
		func() {
			defer func() {
				if p := recover(); p != nil {
					r.viol("C08", "actor %d op %d (%s) panicked: %v\n%s", ai, oi, op.K, p, clip(string(debug.Stack()), 2000))
				}
			}()
			switch op.K {
			case "report":
				if a.Src < 0 || op.L == nil {
					return
				}
				val := op.L.Value(r.pt)
				var err error
				if op.Block {
					desc = "blocking-report"
					err = r.ws[a.Src].Args.BlockingReportNewValue(ctx, val)
				} else {
					err = r.ws[a.Src].Args.ReportNewValue(ctx, val)
				}
				for b := 0; b < op.Burst && err == nil; b++ {
					l := SimLayer{}
					n := 100000 + b
					switch a.Src {
					case 0:
						l.A = &n
					case 1:
						l.B = &n
					default:
						l.C = &n
					}
					// keep whatever else the slot had: a report replaces the whole slot
					err = r.ws[a.Src].Args.BlockingReportNewValue(ctx, l.Value(r.pt))
					if err == nil {
						lc := l
						op.L = &lc
					}
				}
				if op.Burst > 0 {
					desc += fmt.Sprintf("+burst(%d)", op.Burst)
				}
				resStr = fmt.Sprint(err)
				after := r.shutdownStarted()
				switch {
				case err == nil:
					r.mu.Lock()
					r.lastRep[a.Src] = *op.L
					r.mu.Unlock()
					if op.Block {
						// read-your-write on the owned counter
						v := r.d.View()
						own := []int{v.A, v.B, v.C}[a.Src]
						want := 0
						switch a.Src {
						case 0:
							want = *op.L.A
						case 1:
							want = *op.L.B
						default:
							want = *op.L.C
						}
						if own != want {
							r.viol("C07", "blocking report by source %d returned nil but View shows its own leaf = %d, want %d", a.Src, own, want)
						}
					}
				case errors.Is(err, ErrInvalid):
					if !op.Block {
						r.viol("C07", "non-blocking report returned the verifier's error")
					}
					r.mu.Lock()
					r.lastRep[a.Src] = *op.L // the slot is replaced even though the stack was rejected
					r.res.Rejects++
					r.mu.Unlock()
				case errors.Is(err, context.DeadlineExceeded):
					r.mu.Lock()
					r.timedOut = true
					r.mu.Unlock()
					if !before && !after {
						r.viol("C08", "a report issued while the monitor should be serving timed out after %v: reports are not being handled", time.Since(t0))
					}
				default:
					r.viol("C07", "report returned an unexpected error: %v", err)
				}
			case "reporterr":
				if a.Src < 0 {
					return
				}
				err := r.ws[a.Src].Args.ReportError(ctx, errSource)
				resStr = fmt.Sprint(err)
				if err != nil && !before && !r.shutdownStarted() {
					r.viol("C08", "ReportError failed while the monitor should be serving: %v", err)
				}
			case "done":
				if a.Src < 0 {
					return
				}
				r.mu.Lock()
				r.doneCnt++
				r.mu.Unlock()
				r.ws[a.Src].Args.Done(ctx)
			case "view":
				cfg, tok := r.d.ViewVersion()
				s := serialOf(tok)
				resStr = fmt.Sprintf("serial %d", s)
				if s < lastSerial {
					r.viol("C05", "actor %d saw the serial go backwards: %d after %d", ai, s, lastSerial)
				}
				lastSerial = s
				r.observed(cfg, "ViewVersion")
				r.mu.Lock()
				r.pairs = append(r.pairs, pairRec{cfg, s})
				r.mu.Unlock()
			case "events":
				select {
				case c := <-r.d.Events():
					r.observed(c, "Events")
					r.mu.Lock()
					s := r.serialOf[c]
					r.evSeen = append(r.evSeen, evRec{ai, c})
					r.mu.Unlock()
					resStr = fmt.Sprintf("serial %d", s)
				default:
					resStr = "empty"
				}
			case "register":
				cfg, tok := r.d.ViewVersion()
				_ = cfg
				name := fmt.Sprintf("a%dh%d", ai, len(regs))
				s := serialOf(tok)
				if op.Zero {
					tok = dials.CfgSerial[SimCfg]{}
					s = 0
				}
				r.mu.Lock()
				r.regSerial[name] = s
				r.mu.Unlock()
				u := r.d.RegisterCallback(ctx, tok, r.makeCB(name, s, op.Forever))
				resStr = fmt.Sprintf("%s nil=%v", name, u == nil)
				regs = append(regs, reg{name, u})
				if u == nil && !before && !r.shutdownStarted() && time.Since(t0) < lateTimeout {
					r.viol("C06", "RegisterCallback returned nil before its context ended although the monitor is serving")
				}
			case "unregister":
				if len(regs) == 0 {
					return
				}
				g := regs[op.H%len(regs)]
				if g.unreg == nil {
					return
				}
				ok := g.unreg(ctx)
				resStr = fmt.Sprintf("%s %v", g.name, ok)
				if ok {
					r.mu.Lock()
					if _, dup := r.unregTrue[g.name]; !dup {
						r.unregTrue[g.name] = r.seq
					}
					r.mu.Unlock()
				}
			case "enable":
				r.mu.Lock()
				r.enableStarted = true
				r.mu.Unlock()
				cfg, tok, err := r.d.EnableVerification(ctx)
				resStr = fmt.Sprint(err)
				if err == nil {
					r.observed(cfg, "EnableVerification")
					if sc := r.sc; sc.Delay {
						r.mu.Lock()
						r.enableOK = true
						r.enables = append(r.enables, enableRec{serialOf(tok), cfg})
						r.mu.Unlock()
						if cfg == nil {
							r.viol("C09", "EnableVerification succeeded but returned a nil config")
						} else if cfg.Limit < 0 {
							r.viol("C09", "EnableVerification reported success for a config that fails Verify (Limit=%d, serial %d)", cfg.Limit, serialOf(tok))
						}
					}
				} else if r.sc.Delay && !errors.Is(err, ErrInvalid) && !r.shutdownStarted() && !errors.Is(err, context.DeadlineExceeded) {
					r.viol("C09", "EnableVerification failed with %v, want nil or the verifier's error", err)
				}
			}
		}()
		if el := time.Since(t0); el > lateTimeout {
			r.viol("C08", "actor %d op %s returned after %v, past its context's deadline (%v)", ai, op.K, el, lateTimeout)
		}
		cancel()
		r.log(ai, desc, resStr)
		if r.res.Viol != nil {
			return
		}
	}
}

func (r *freeRun) finalChecks() {
	r.mu.Lock()
	cbs := append([]cbRec{}, r.cbs...)
	stores := append([]storeRec{}, r.stores...)
	exited, cancelled, doneCnt := r.exited, r.cancelled, r.doneCnt
	last := append([]SimLayer{}, r.lastRep...)
	regSerial := map[string]uint64{}
	for k, v := range r.regSerial {
		regSerial[k] = v
	}
	sof := map[*SimCfg]uint64{}
	for k, v := range r.serialOf {
		sof[k] = v
	}
	r.mu.Unlock()
	r.res.Installs = len(stores)
	r.res.Calls = len(cbs)
	r.mu.Lock()
	seen := append([]seenRec{}, r.seen...)
	r.mu.Unlock()
	r.mu.Lock()
	enables := append([]enableRec{}, r.enables...)
	r.mu.Unlock()
	if len(enables) > 0 {
		first := enables[0].serial
		for _, e := range enables {
			if e.serial < first {
				first = e.serial
			}
			if want, ok := sof[e.cfg]; ok && want != e.serial {
				r.viol("C09", "EnableVerification returned a config stored as version %d together with serial %d", want, e.serial)
				return
			}
		}
		for _, st := range stores {
			if st.serial > first && st.ptr.Limit < 0 {
				r.viol("C09", "version %d (Limit=%d) was installed unverified after EnableVerification had succeeded on version %d: the switch-on is not atomic", st.serial, st.ptr.Limit, first)
				return
			}
		}
		r.label2("enable-succeeded")
	}
	r.mu.Lock()
	pairs := append([]pairRec{}, r.pairs...)
	r.mu.Unlock()
	for _, p := range pairs {
		if want, ok := sof[p.c]; ok && want != p.s {
			r.viol("C05", "ViewVersion returned a config together with serial %d, but that config was stored with serial %d", p.s, want)
			return
		}
	}
	r.mu.Lock()
	evs := append([]evRec{}, r.evSeen...)
	r.mu.Unlock()
	lastEv := map[int]uint64{}
	for _, e := range evs {
		s, ok := sof[e.c]
		if !ok {
			continue // reported below as never stored
		}
		if prev, seen := lastEv[e.actor]; seen && s <= prev {
			r.viol("C05", "actor %d received version %d from Events after version %d: the Events stream went backwards", e.actor, s, prev)
			return
		}
		lastEv[e.actor] = s
	}
	for _, sr := range seen {
		if _, ok := sof[sr.c]; !ok {
			r.viol("C05", "%s exposed a config that was never stored as a version", sr.where)
			return
		}
	}
	// callbacks: per handle strictly increasing new-serial, above the registered serial; global install order
	lastNew := map[string]uint64{}
	var lastGlobal uint64
	for i, c := range cbs {
		if c.who == "onerr" {
			continue
		}
		ns, ok := sof[c.new]
		if !ok {
			r.viol("C06", "callback %s received a new config that was never stored", c.who)
			return
		}
		if prev, seen := lastNew[c.who]; seen && ns <= prev {
			r.viol("C06", "callback %s received version %d after version %d: not newer than one it already received", c.who, ns, prev)
			return
		}
		lastNew[c.who] = ns
		if c.who != "onnew" {
			if rs, ok := regSerial[c.who]; ok && ns <= rs {
				r.viol("C06", "callback %s registered with serial %d received version %d, which is not newer", c.who, rs, ns)
				return
			}
		}
		if ns < lastGlobal {
			r.viol("C06", "callback #%d (%s) delivered version %d after version %d had been delivered: not in installation order", i, c.who, ns, lastGlobal)
			return
		}
		lastGlobal = ns
		os, ook := sof[c.old]
		if ook && os >= ns {
			r.viol("C06", "callback %s got old=version %d, new=version %d", c.who, os, ns)
			return
		}
	}
	// shutdown: the monitor exits iff cancelled or every watcher called Done
	if (cancelled || doneCnt >= r.sc.NWatch) != exited {
		if cancelled || doneCnt >= r.sc.NWatch {
			r.viol("C08", "the monitor did not exit although the context was cancelled or every watcher called Done")
		} else {
			r.viol("C08", "the monitor exited although sources are still watching and the context is live")
		}
		return
	}
	// if nothing shut down and no value of the scenario can make a stack
	// invalid, the final view is the stack of every source's latest value,
	// whatever the interleaving was (one reporter per source)
	if !exited && !r.anyInvalid() && !r.timedOut {
		want := Stack(r.sc.Defaults, last)
		if df := shape.Diff(reflect.ValueOf(want).Elem(), reflect.ValueOf(r.d.View()).Elem()); df != "" {
			r.viol("C05", "after all reports were handled the view differs from the stack of each source's latest value at %s (want vs got)", df)
			return
		}
		r.label2("final-view-checked")
	}
	r.label2(fmt.Sprintf("installs>=%d", min(len(stores), 5)))
}

func (r *freeRun) label2(l string) { r.res.Labels[l] = true }

func (r *freeRun) lateCall(kind string) {
	ctx, cancel := context.WithTimeout(context.Background(), lateTimeout)
	defer cancel()
	t0 := time.Now()
	var bad string
	func() {
		defer func() {
			if p := recover(); p != nil {
				bad = fmt.Sprintf("panicked: %v", p)
			}
		}()
		switch kind {
		case "register":
			_, tok := r.d.ViewVersion()
			if u := r.d.RegisterCallback(ctx, tok, func(context.Context, *SimCfg, *SimCfg) {}); u != nil {
				// accepted into a queue nobody drains: tolerated, the callback must simply never run
				_ = u
			}
		case "enable":
			_, _, err := r.d.EnableVerification(ctx)
			if err == nil && r.sc.Delay {
				r.mu.Lock()
				ok := r.enableOK
				r.mu.Unlock()
				if !ok {
					bad = "reported success although the monitor is gone"
				}
			}
		case "report":
			l := SimLayer{}
			if err := r.ws[0].Args.ReportNewValue(ctx, l.Value(r.pt)); err == nil {
				bad = "returned nil although nothing can handle the value"
			}
		case "reportblock":
			l := SimLayer{}
			if err := r.ws[0].Args.BlockingReportNewValue(ctx, l.Value(r.pt)); err == nil {
				bad = "returned nil although nothing can handle the value"
			}
		case "reporterr":
			if err := r.ws[0].Args.ReportError(ctx, errSource); err == nil {
				bad = "returned nil although nothing can handle the error"
			}
		case "done":
			r.ws[0].Args.Done(ctx)
		}
	}()
	r.log(-2, "late "+kind, bad)
	if bad != "" {
		r.viol("C08", "late %s after shutdown %s", kind, bad)
		return
	}
	if el := time.Since(t0); el > lateTimeout {
		r.viol("C08", "late %s after shutdown returned after %v, past its context's deadline", kind, el)
	}
	r.label2("late:" + kind)
}

var _ = sort.Strings
