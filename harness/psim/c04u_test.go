package psim

import (
	"context"
	"errors"
	"fmt"
	"reflect"
	"sync"
	"sync/atomic"
	"testing"
	"testing/synctest"

	"github.com/vimeo/dials"
	"pgregory.net/rapid"

	"verifharness/internal/fake"
	"verifharness/internal/vrt"
)

// UCfg has an interface-typed field with a non-nil default: a source that
// sets it produces a value that cannot be stacked (the pointerified concrete
// type does not implement the interface), which is the contract-abiding way to
// reach the "fails to stack" branch.
type ULabel struct{ Text string }

func (u ULabel) String() string { return u.Text }

type UCfg struct {
	N     int
	Limit int
	I     fmt.Stringer
}

var uVerifyMu sync.Mutex
var uVerifyLog []*UCfg

// uVerifyHook, when set, runs inside every Verify call (on whatever goroutine
// the library verifies on).
var uVerifyHook atomic.Pointer[func(*UCfg)]

func (c *UCfg) Verify() error {
	uVerifyMu.Lock()
	uVerifyLog = append(uVerifyLog, c)
	uVerifyMu.Unlock()
	if h := uVerifyHook.Load(); h != nil {
		(*h)(c)
	}
	if c.Limit < 0 {
		return ErrInvalid
	}
	return nil
}

type UOp struct {
	Src   int  `json:"src"`
	N     int  `json:"n"`
	Limit *int `json:"limit,omitempty"`
	SetI  bool `json:"set_i,omitempty"`
	Block bool `json:"block,omitempty"`
}

type C04UCase struct {
	Skip     bool  `json:"skip,omitempty"`
	Delay    bool  `json:"delay,omitempty"`
	Suppress bool  `json:"suppress,omitempty"`
	NWatch   int   `json:"n_watch"`
	Ops      []UOp `json:"ops"`
	// EnableAt k>0: EnableVerification is called before op k-1 (only with Delay)
	EnableAt int `json:"enable_at,omitempty"`
}

func genC04U(t *rapid.T) C04UCase {
	c := C04UCase{Skip: rapid.IntRange(0, 3).Draw(t, "skip") == 0, NWatch: rapid.IntRange(1, 2).Draw(t, "n_watch")}
	c.Delay = rapid.IntRange(0, 2).Draw(t, "delay") == 0
	c.Suppress = rapid.Bool().Draw(t, "suppress")
	n := rapid.IntRange(1, 12).Draw(t, "ops")
	for i := 0; i < n; i++ {
		op := UOp{Src: rapid.IntRange(0, c.NWatch-1).Draw(t, "src"), N: i + 1, Block: rapid.Bool().Draw(t, "block")}
		switch rapid.IntRange(0, 5).Draw(t, "kind") {
		case 0, 1:
			op.SetI = true
		case 2:
			v := -(i + 1)
			op.Limit = &v
		case 3:
			v := i + 1
			op.Limit = &v
		}
		c.Ops = append(c.Ops, op)
	}
	if c.Delay && rapid.IntRange(0, 2).Draw(t, "enable") != 0 {
		c.EnableAt = rapid.IntRange(1, n).Draw(t, "enable_at")
	}
	return c
}

func uLayer(pt reflect.Type, op *UOp) reflect.Value {
	v := reflect.New(pt).Elem()
	if op == nil {
		return v
	}
	n := op.N
	v.FieldByName("N").Set(reflect.ValueOf(&n))
	if op.Limit != nil {
		l := *op.Limit
		v.FieldByName("Limit").Set(reflect.ValueOf(&l))
	}
	if op.SetI {
		// a value of exactly the type the pointerified struct has for I
		f := v.FieldByName("I")
		ft := f.Type()
		switch ft.Kind() {
		case reflect.Pointer:
			np := reflect.New(ft.Elem())
			if tf := np.Elem().FieldByName("Text"); tf.IsValid() && tf.Kind() == reflect.Pointer {
				s := fmt.Sprintf("label%d", n)
				tf.Set(reflect.ValueOf(&s))
			}
			f.Set(np)
		case reflect.Interface:
			f.Set(reflect.ValueOf(ULabel{Text: fmt.Sprintf("label%d", n)}))
		}
	}
	return v
}

func runC04U(c C04UCase) (verdict vrt.Verdict) {
	if c.NWatch < 1 || c.NWatch > 2 {
		return vrt.Discardf("bad case")
	}
	var msg string
	fail := func(format string, a ...any) {
		if msg == "" {
			msg = fmt.Sprintf(format, a...)
		}
	}
	defer func() {
		if p := recover(); p != nil {
			verdict = vrt.KeyedViolationf("panic", "panic / synctest failure: %v", p)
		}
	}()
	unstackSeen, validSeen, invalidSeen, unstackAfterEnable := 0, 0, 0, 0
	enabled := false
	synctest.Test(curT, func(st *testing.T) {
		ctx, cancel := context.WithCancel(context.Background())
		defer func() { cancel(); synctest.Wait() }()
		uVerifyMu.Lock()
		uVerifyLog = nil
		uVerifyMu.Unlock()
		type errRec struct {
			err      error
			old, new *UCfg
		}
		var mu sync.Mutex
		var errs []errRec
		var news []*UCfg
		params := dials.Params[UCfg]{SkipInitialVerification: c.Skip, DelayInitialVerification: c.Delay, CallGlobalCallbacksAfterVerificationEnabled: c.Suppress,
			OnWatchedError: func(_ context.Context, err error, o, n *UCfg) {
				mu.Lock()
				errs = append(errs, errRec{err, o, n})
				mu.Unlock()
			},
			OnNewConfig: func(_ context.Context, o, n *UCfg) {
				mu.Lock()
				news = append(news, n)
				mu.Unlock()
			}}
		mkDefaults := func() *UCfg { return &UCfg{N: 0, I: ULabel{Text: "default"}} }
		ws := make([]*fake.Watcher, c.NWatch)
		srcs := make([]dials.Source, c.NWatch)
		for i := range ws {
			ws[i] = &fake.Watcher{}
			srcs[i] = ws[i]
		}
		d, err := params.Config(ctx, mkDefaults(), srcs...)
		if err != nil {
			fail("Config failed: %v", err)
			return
		}
		pt := ws[0].Type.Type()
		slots := make([]*UOp, c.NWatch)
		curView, curTok := d.ViewVersion()
		curSerial := serialOf(curTok)
		delayInForce := c.Delay
		for i := range c.Ops {
			op := &c.Ops[i]
			if op.Src < 0 || op.Src >= c.NWatch {
				fail("bad op")
				return
			}
			if c.Delay && c.EnableAt == i+1 {
				_, _, enErr := d.EnableVerification(ctx)
				synctest.Wait()
				if curView.Limit < 0 {
					if !errors.Is(enErr, ErrInvalid) {
						fail("before op %d: EnableVerification over an installed config that does not verify returned %v", i, enErr)
						return
					}
				} else {
					if enErr != nil {
						fail("before op %d: EnableVerification over a valid installed config returned %v", i, enErr)
						return
					}
					delayInForce = false
					enabled = true
				}
				if v, tok := d.ViewVersion(); v != curView || serialOf(tok) != curSerial {
					fail("before op %d: EnableVerification changed the view or the serial", i)
					return
				}
			}
			step := fmt.Sprintf("op %d (src %d n=%d setI=%v limit=%v block=%v; delay in force=%v, suppress option=%v)", i, op.Src, op.N, op.SetI, op.Limit, op.Block, delayInForce, c.Suppress)
			newSlots := append([]*UOp{}, slots...)
			newSlots[op.Src] = op
			// model: class of the new stack
			anyI, limit, nval := false, 0, 0
			for _, s := range newSlots {
				if s == nil {
					continue
				}
				nval = s.N
				if s.Limit != nil {
					limit = *s.Limit
				}
				anyI = anyI || s.SetI
			}
			// differential reference: a fresh Config over static sources with the same values
			var refSrcs []dials.Source
			for _, s := range newSlots {
				s := s
				refSrcs = append(refSrcs, &fake.Static{Mk: func(t *dials.Type) reflect.Value { return uLayer(t.Type(), s) }})
			}
			uVerifyMu.Lock()
			vlBefore := len(uVerifyLog)
			uVerifyMu.Unlock()
			_, refErr := dials.Params[UCfg]{SkipInitialVerification: true}.Config(ctx, mkDefaults(), refSrcs...)
			uVerifyMu.Lock()
			uVerifyLog = uVerifyLog[:vlBefore]
			uVerifyMu.Unlock()
			if (refErr != nil) != anyI {
				fail("%s: harness assumption broken: fresh Config over the same values returned %v but the model says unstackable=%v", step, refErr, anyI)
				return
			}
			mu.Lock()
			errsBefore, newsBefore := len(errs), len(news)
			mu.Unlock()
			var rerr error
			val := uLayer(pt, op)
			if op.Block {
				rerr = ws[op.Src].Args.BlockingReportNewValue(ctx, val)
			} else {
				rerr = ws[op.Src].Args.ReportNewValue(ctx, val)
			}
			synctest.Wait()
			slots = newSlots
			v, tok := d.ViewVersion()
			mu.Lock()
			newErrs := append([]errRec{}, errs[errsBefore:]...)
			newNews := append([]*UCfg{}, news[newsBefore:]...)
			mu.Unlock()
			uVerifyMu.Lock()
			verifs := append([]*UCfg{}, uVerifyLog[vlBefore:]...)
			uVerifyMu.Unlock()
			suppressed := delayInForce && c.Suppress
			// under delayed verification nothing is verified: invalid values are installed
			rejectInvalid := limit < 0 && !delayInForce
			switch {
			case anyI:
				unstackSeen++
				if enabled {
					unstackAfterEnable++
				}
				if v != curView || serialOf(tok) != curSerial {
					fail("%s: an update that cannot be stacked changed the view or the serial (serial %d -> %d)", step, curSerial, serialOf(tok))
					return
				}
				if len(verifs) != 0 {
					fail("%s: Verify was called although stacking failed", step)
					return
				}
				if op.Block && (rerr == nil || errors.Is(rerr, ErrInvalid)) {
					fail("%s: a blocking report of a value that cannot be stacked returned %v, want the stacking error", step, rerr)
					return
				}
				if !op.Block && rerr != nil {
					fail("%s: ReportNewValue returned %v", step, rerr)
					return
				}
				if !suppressed && (len(newErrs) != 1 || newErrs[0].err == nil || newErrs[0].old != curView || newErrs[0].new != nil) {
					fail("%s: OnWatchedError must be called once with (stacking error, current config, nil); got %d call(s) %+v", step, len(newErrs), newErrs)
					return
				}
				if len(newNews) != 0 {
					fail("%s: OnNewConfig was called for an update that cannot be stacked", step)
					return
				}
			case rejectInvalid:
				invalidSeen++
				if v != curView || serialOf(tok) != curSerial {
					fail("%s: an update that does not verify changed the view or the serial", step)
					return
				}
				if len(verifs) != 1 || verifs[0].N != nval || verifs[0].Limit != limit {
					fail("%s: expected exactly one Verify call on the rejected stack", step)
					return
				}
				if op.Block && !errors.Is(rerr, ErrInvalid) {
					fail("%s: a blocking report of an invalid value returned %v, want the verifier's error", step, rerr)
					return
				}
				if len(newErrs) != 1 || !errors.Is(newErrs[0].err, ErrInvalid) || newErrs[0].old != curView || newErrs[0].new != verifs[0] {
					fail("%s: OnWatchedError must be called once with (verifier's error, current config, rejected config); got %d call(s)", step, len(newErrs))
					return
				}
				if len(newNews) != 0 {
					fail("%s: OnNewConfig was called for a rejected update", step)
					return
				}
			default:
				validSeen++
				if rerr != nil {
					fail("%s: report of a valid value returned %v", step, rerr)
					return
				}
				if serialOf(tok) != curSerial+1 || v == curView {
					fail("%s: a valid update was not installed (serial %d -> %d)", step, curSerial, serialOf(tok))
					return
				}
				if v.N != nval || v.Limit != limit || v.I == nil || v.I.String() != "default" {
					fail("%s: installed config is %+v, want N=%d Limit=%d I=default", step, *v, nval, limit)
					return
				}
				if delayInForce {
					if len(verifs) != 0 {
						fail("%s: Verify was called although verification is delayed", step)
						return
					}
				} else if len(verifs) != 1 || verifs[0] != v {
					fail("%s: the installed config is not the one that was verified", step)
					return
				}
				if suppressed {
					if len(newNews) != 0 {
						fail("%s: OnNewConfig was called although global callbacks are suppressed", step)
						return
					}
				} else if len(newErrs) != 0 || len(newNews) != 1 || newNews[0] != v {
					fail("%s: expected exactly one OnNewConfig(new=installed) and no OnWatchedError; got %d / %d", step, len(newNews), len(newErrs))
					return
				}
				curView, curSerial = v, serialOf(tok)
			}
		}
	})
	if msg != "" {
		return vrt.KeyedViolationf("unstackable", "%s", msg)
	}
	return vrt.OK(unstackSeen >= 1 && validSeen >= 1, fmt.Sprintf("unstackable=%d", min(unstackSeen, 3)), fmt.Sprintf("invalid=%d", min(invalidSeen, 3)), fmt.Sprintf("valid=%d", min(validSeen, 3)), fmt.Sprintf("unstackable-after-enable=%d", min(unstackAfterEnable, 2)))
}

func TestC07Unstackable(t *testing.T) {
	curT = t
	vrt.Check(t, vrt.Prop[C04UCase]{
		ID: "C07", Name: "unstackable",
		Rule: "the histories of C04/unstackable (values that cannot be stacked, invalid and valid values, blocking and not, under Skip / Delay / suppress options); " +
			"oracle (C07's clauses): a blocking report of a value whose stacking or verification fails returns that error (it is answered on every path: a missing answer leaves the bubble deadlocked) and the view is unchanged; nil => the view holds the value; " +
			"non-trivial = at least one unstackable and one installed update; distinct = distinct case JSON",
		Assumptions: []string{"see C04/unstackable"},
		Gen:         genC04U, Run: runC04U,
	})
}

func TestC04Unstackable(t *testing.T) {
	curT = t
	vrt.Check(t, vrt.Prop[C04UCase]{
		ID: "C04", Name: "unstackable",
		Rule: "histories of 1..12 reports from 1..2 watchers over a config with an interface-typed field whose default is non-nil: a source that sets that field yields a value that cannot be stacked (class confirmed per step by a fresh Config over the same values), mixed with valid and invalid (negative Limit) values, blocking and not, under Skip / Delay / suppress options, with (under Delay, 2 of 3 cases) one EnableVerification call before a generated op; " +
			"oracle: an unstackable update leaves view and serial unchanged, never reaches Verify, makes a blocking report return the stacking error and calls OnWatchedError exactly once with (error, current config, nil); invalid updates get (verifier's error, current, rejected); valid ones are installed with serial+1 and announced once; global callbacks are withheld exactly while the delay is in force (until the first successful enable) and the suppress option is set; " +
			"non-trivial = at least one unstackable and one installed update; distinct = distinct case JSON",
		Assumptions: []string{"a non-nil interface default makes Pointerify devirtualise the field to a method-less reflect-built type, so any value a contract-abiding source sets there fails the interface check in overlay: this is the only contract-abiding stacking failure found"},
		Gen:         genC04U, Run: runC04U,
	})
}

func TestC09Unstackable(t *testing.T) {
	curT = t
	vrt.Check(t, vrt.Prop[C04UCase]{
		ID: "C09", Name: "unstackable",
		Rule: "the histories of C04/unstackable (values that cannot be stacked, invalid and valid values, blocking and not, under Skip / Delay / suppress options, with an EnableVerification call before a generated op in two thirds of the Delay cases); " +
			"oracle (C09's clauses): nothing is verified while the delay is in force; OnNewConfig and OnWatchedError - for stacking failures as for Verify failures - are withheld exactly while the delay is in force AND the suppress option is set, and delivered exactly once with the right arguments in every other state (Delay without suppress; after the first successful enable); " +
			"non-trivial = at least one unstackable and one installed update; distinct = distinct case JSON",
		Assumptions: []string{"see C04/unstackable"},
		Gen:         genC04U, Run: runC04U,
	})
}
