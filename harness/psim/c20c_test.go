package psim

import (
	"context"
	"fmt"
	"reflect"
	"testing"
	"time"

	"github.com/vimeo/dials"
	"github.com/vimeo/dials/sourcewrap"
	"pgregory.net/rapid"

	"verifharness/internal/fake"
	"verifharness/internal/shape"
	"verifharness/internal/vrt"
)

// C20ConcCase: two overlapping Blank.SetSource calls - the first one's inner
// source is slow to produce its value, the second call arrives meanwhile.
// Whatever the interleaving, the outcome must be one of the two serial orders.
type C20ConcCase struct {
	FirstWatching  bool   `json:"first_watching"`
	SecondWatching bool   `json:"second_watching"`
	First          WLayer `json:"first"`
	Second         WLayer `json:"second"`
	Update         WLayer `json:"update"`
	PauseMS        int    `json:"pause_ms"` // how long the second call gets before the first one's Value returns
}

func genC20Conc(t *rapid.T) C20ConcCase {
	return C20ConcCase{
		FirstWatching: rapid.IntRange(0, 3).Draw(t, "first_watching") == 0, SecondWatching: rapid.IntRange(0, 3).Draw(t, "second_watching") != 0,
		First: genWLayer(t, 1), Second: genWLayer(t, 2), Update: genWLayer(t, 3), PauseMS: rapid.IntRange(0, 20).Draw(t, "pause_ms"),
	}
}

// slowSource parks in Value until released.
type slowSource struct {
	l       WLayer
	entered chan struct{}
	gate    chan struct{}
}

func (s *slowSource) Value(_ context.Context, t *dials.Type) (reflect.Value, error) {
	close(s.entered)
	<-s.gate
	return wNative(t.Type(), s.l), nil
}

type slowWatcher struct {
	slowSource
	fake.Watcher
}

func (s *slowWatcher) Value(ctx context.Context, t *dials.Type) (reflect.Value, error) {
	s.Watcher.Type = t
	return s.slowSource.Value(ctx, t)
}

func runC20Conc(c C20ConcCase) (verdict vrt.Verdict) {
	if c.PauseMS < 0 || c.PauseMS > 1000 {
		return vrt.Discardf("bad case")
	}
	defer func() {
		if p := recover(); p != nil {
			verdict = vrt.KeyedViolationf("panic", "panic: %v", p)
		}
	}()
	ctx, cancel := context.WithCancel(context.Background())
	defer cancel()
	blank := &sourcewrap.Blank{}
	d, err := dials.Config(ctx, wStack(nil), blank)
	if err != nil {
		return vrt.Violationf("Config failed: %v", err)
	}
	first := slowSource{l: c.First, entered: make(chan struct{}), gate: make(chan struct{})}
	var firstSrc dials.Source = &first
	var firstW *slowWatcher
	if c.FirstWatching {
		firstW = &slowWatcher{slowSource: first}
		firstSrc = firstW
	}
	var secondW *fake.Watcher
	var secondSrc dials.Source = &fake.Static{Mk: func(t *dials.Type) reflect.Value { return wNative(t.Type(), c.Second) }}
	if c.SecondWatching {
		secondW = &fake.Watcher{Mk: func(t *dials.Type) reflect.Value { return wNative(t.Type(), c.Second) }}
		secondSrc = secondW
	}
	var errA, errB error
	aDone, bDone := make(chan struct{}), make(chan struct{})
	go func() { errA = blank.SetSource(ctx, firstSrc); close(aDone) }()
	select {
	case <-first.entered:
	case <-time.After(20 * time.Second):
		close(first.gate)
		return vrt.Discardf("the first SetSource did not reach Value within 20 s")
	}
	go func() { errB = blank.SetSource(ctx, secondSrc); close(bDone) }()
	select {
	case <-bDone:
	case <-time.After(time.Duration(c.PauseMS) * time.Millisecond):
	}
	close(first.gate)
	for _, ch := range []chan struct{}{aDone, bDone} {
		select {
		case <-ch:
		case <-time.After(30 * time.Second):
			return vrt.Discardf("a SetSource call did not return within 30 s")
		}
	}
	what := fmt.Sprintf("overlapping SetSource calls (first: watching=%v, slow Value; second: watching=%v; first returned %v, second returned %v)", c.FirstWatching, c.SecondWatching, errA, errB)
	view := func() *WCfg { return d.View() }
	same := func(l WLayer) bool {
		return shape.Diff(reflect.ValueOf(wStack([]WLayer{l})).Elem(), reflect.ValueOf(view()).Elem()) == ""
	}
	// legal outcomes = the two serial orders
	//   first -> second : first installed (nil); second replaces it unless first is a watcher (then refused)
	//   second -> first : second installed (nil); first replaces it unless second is a watcher (then refused)
	orderAB := errA == nil && ((c.FirstWatching && errB != nil && same(c.First)) || (!c.FirstWatching && errB == nil && same(c.Second)))
	orderBA := errB == nil && ((c.SecondWatching && errA != nil && same(c.Second)) || (!c.SecondWatching && errA == nil && same(c.First)))
	if !orderAB && !orderBA {
		return vrt.KeyedViolationf("blank-concurrent", "%s: the outcome matches neither serial order: view %+v (first value %+v, second value %+v); a watching inner source must never be replaced and the view must hold the value of the source that owns the slot", what, *view(), *wStack([]WLayer{c.First}), *wStack([]WLayer{c.Second}))
	}
	// the owner of the slot keeps working
	var owner *fake.Watcher
	switch {
	case orderAB && c.FirstWatching:
		owner = &firstW.Watcher
	case orderAB && c.SecondWatching, orderBA && c.SecondWatching:
		owner = secondW
	case orderBA && c.FirstWatching:
		owner = &firstW.Watcher
	}
	if owner != nil {
		if owner.Args == nil {
			return vrt.KeyedViolationf("blank-concurrent", "%s: the watching source that owns the slot was never started", what)
		}
		blank.Done(ctx) // must not be forwarded: the inner watcher owns the slot
		uctx, ucancel := context.WithTimeout(ctx, 20*time.Second)
		uerr := owner.Args.BlockingReportNewValue(uctx, wNative(owner.Type.Type(), c.Update))
		ucancel()
		if uerr != nil {
			return vrt.KeyedViolationf("blank-concurrent", "%s: after Blank.Done (not to be forwarded while an inner watcher owns the slot) an update from that watcher failed: %v", what, uerr)
		}
		if !same(c.Update) {
			return vrt.KeyedViolationf("blank-concurrent", "%s: an update from the watching inner source did not reach the view: %+v", what, *view())
		}
	}
	order := "first->second"
	if !orderAB {
		order = "second->first"
	}
	return vrt.OK(c.FirstWatching || c.SecondWatching, "order="+order, fmt.Sprintf("first_watching=%v", c.FirstWatching), fmt.Sprintf("second_watching=%v", c.SecondWatching))
}

func TestC20BlankConcurrent(t *testing.T) {
	vrt.Check(t, vrt.Prop[C20ConcCase]{
		ID: "C20", Name: "blank-concurrent", NoJournal: true,
		Rule: "two overlapping Blank.SetSource calls on real goroutines: the first call's inner source (static or watching) is parked inside Value while the second call (static or watching) is issued and given 0..20 ms; then the first is released; afterwards Blank.Done and an update from the inner watcher that owns the slot; " +
			"oracle: the outcome (return values, view, owner of the slot) equals one of the two serial orders of the calls - a watching inner source is never replaced, the view holds the owner's value, Done is not forwarded while an inner watcher owns the slot and its update arrives; the pause only gives an unserialised implementation the chance to interleave, it is not part of the oracle; " +
			"non-trivial = at least one of the two sources is watching; distinct = distinct case JSON",
		Assumptions: []string{"calls that do not return within 20..30 s real time are discarded (inconclusive), not failed"},
		Gen:         genC20Conc, Run: runC20Conc,
	})
}
