package psim

import (
	"context"
	"errors"
	"fmt"
	"reflect"
	"sort"
	"strconv"
	"strings"
	"sync"
	"testing"
	"testing/synctest"
	"time"

	"github.com/vimeo/dials"
	"github.com/vimeo/dials/decoders/json/jsontypes"
	"github.com/vimeo/dials/sourcewrap"
	"github.com/vimeo/dials/tagformat"
	"github.com/vimeo/dials/tagformat/caseconversion"
	"github.com/vimeo/dials/transform"
	"pgregory.net/rapid"

	"verifharness/internal/fake"
	"verifharness/internal/shape"
	"verifharness/internal/vrt"
)

// ---- config type for the wrapper checks ----

type WSub struct {
	Depth int    `dials:"depth"`
	Tag   string `dials:"tag"`
}

type WCfg struct {
	Num  int                 `dials:"num"`
	Name string              `dials:"name"`
	Dur  time.Duration       `dials:"dur"`
	Set  map[string]struct{} `dials:"set"`
	List []string            `dials:"list"`
	Sub  WSub                `dials:"sub"`
}

// Verify makes some updates invalid so that errors have to travel back
// through the wrapper (Num -13 is never a default).
func (c *WCfg) Verify() error {
	if c.Num == -13 {
		return ErrInvalid
	}
	return nil
}

// WLayer is what the inner source "finds".
type WLayer struct {
	Num      *int     `json:"num,omitempty"`
	Name     *string  `json:"name,omitempty"`
	DurNS    *int64   `json:"dur_ns,omitempty"`
	Set      []string `json:"set,omitempty"`
	HasSet   bool     `json:"has_set,omitempty"`
	List     []string `json:"list,omitempty"`
	HasList  bool     `json:"has_list,omitempty"`
	SubDepth *int     `json:"sub_depth,omitempty"`
	SubTag   *string  `json:"sub_tag,omitempty"`
}

func wStack(layers []WLayer) *WCfg {
	c := &WCfg{Num: -1, Name: "default", Dur: time.Second, List: []string{"d"}, Sub: WSub{Depth: 1, Tag: "dt"}}
	for _, l := range layers {
		if l.Num != nil {
			c.Num = *l.Num
		}
		if l.Name != nil {
			c.Name = *l.Name
		}
		if l.DurNS != nil {
			c.Dur = time.Duration(*l.DurNS)
		}
		if l.HasSet {
			c.Set = map[string]struct{}{}
			for _, k := range l.Set {
				c.Set[k] = struct{}{}
			}
		}
		if l.HasList {
			c.List = append([]string{}, l.List...)
		}
		if l.SubDepth != nil {
			c.Sub.Depth = *l.SubDepth
		}
		if l.SubTag != nil {
			c.Sub.Tag = *l.SubTag
		}
	}
	return c
}

func normTag(s string) string {
	return strings.ReplaceAll(strings.ToLower(s), "-", "_")
}

// fillTranslated writes layer l into a value of an arbitrary TRANSLATED type:
// fields are located by their (normalised) dials tag path, values are
// converted according to the translated field's type.
func fillTranslated(v reflect.Value, prefix string, l WLayer) error {
	t := v.Type()
	for i := 0; i < t.NumField(); i++ {
		sf := t.Field(i)
		tag := normTag(sf.Tag.Get("dials"))
		if prefix != "" {
			tag = prefix + "_" + tag
		}
		f := v.Field(i)
		ft := sf.Type
		if ft.Kind() == reflect.Pointer && ft.Elem().Kind() == reflect.Struct && tag == "sub" {
			if l.SubDepth == nil && l.SubTag == nil {
				continue
			}
			np := reflect.New(ft.Elem())
			if err := fillTranslated(np.Elem(), tag, l); err != nil {
				return err
			}
			f.Set(np)
			continue
		}
		var native reflect.Value // value in its natural Go type, invalid = unset
		var text string
		switch tag {
		case "num":
			if l.Num != nil {
				native, text = reflect.ValueOf(*l.Num), strconv.Itoa(*l.Num)
			}
		case "name":
			if l.Name != nil {
				native, text = reflect.ValueOf(*l.Name), *l.Name
			}
		case "dur":
			if l.DurNS != nil {
				native, text = reflect.ValueOf(time.Duration(*l.DurNS)), time.Duration(*l.DurNS).String()
			}
		case "set":
			if l.HasSet {
				m := map[string]struct{}{}
				for _, k := range l.Set {
					m[k] = struct{}{}
				}
				native, text = reflect.ValueOf(m), strings.Join(l.Set, ",")
			}
		case "list":
			if l.HasList {
				native, text = reflect.ValueOf(append([]string{}, l.List...)), strings.Join(l.List, ",")
			}
		case "sub_depth":
			if l.SubDepth != nil {
				native, text = reflect.ValueOf(*l.SubDepth), strconv.Itoa(*l.SubDepth)
			}
		case "sub_tag":
			if l.SubTag != nil {
				native, text = reflect.ValueOf(*l.SubTag), *l.SubTag
			}
		default:
			return fmt.Errorf("translated type has an unexpected field %s with dials tag %q", sf.Name, sf.Tag.Get("dials"))
		}
		if !native.IsValid() {
			continue
		}
		switch {
		case ft == reflect.TypeOf((*string)(nil)) && native.Kind() != reflect.String:
			// string-cast field
			s := text
			f.Set(reflect.ValueOf(&s))
		case ft == reflect.TypeOf([]string(nil)) && tag == "set":
			// set-to-slice field
			f.Set(reflect.ValueOf(append([]string{}, l.Set...)))
		case ft == reflect.TypeOf((*jsontypes.ParsingDuration)(nil)):
			pd := jsontypes.ParsingDuration(*l.DurNS)
			f.Set(reflect.ValueOf(&pd))
		case ft == native.Type():
			f.Set(native)
		case ft == reflect.PointerTo(native.Type()):
			np := reflect.New(native.Type())
			np.Elem().Set(native)
			f.Set(np)
		default:
			return fmt.Errorf("translated field %s (tag %s) has type %s; do not know how to write a %s into it", sf.Name, tag, ft, native.Type())
		}
	}
	return nil
}

func manglerChain(id int) ([]transform.Mangler, string) {
	durSub := func() transform.Mangler {
		m, err := transform.NewSingleTypeSubstitutionMangler[time.Duration, jsontypes.ParsingDuration]()
		if err != nil {
			panic(err)
		}
		return m
	}
	switch id {
	case 0:
		return nil, "none"
	case 1:
		return []transform.Mangler{&transform.SetSliceMangler{}}, "set-slice"
	case 2:
		// string casting alone would also turn the struct-typed field into a
		// string; it is only ever used after flattening
		return []transform.Mangler{transform.DefaultFlattenMangler(), tagformat.NewTagReformattingMangler("dials", caseconversion.DecodeGoTags, caseconversion.EncodeKebabCase), &transform.StringCastingMangler{}}, "flatten+reformat-kebab+string-cast"
	case 3:
		return []transform.Mangler{transform.DefaultFlattenMangler()}, "flatten"
	case 4:
		return []transform.Mangler{transform.DefaultFlattenMangler(), &transform.StringCastingMangler{}}, "flatten+string-cast"
	case 5:
		return []transform.Mangler{transform.NewAliasMangler("dials"), transform.DefaultFlattenMangler(),
			tagformat.NewTagReformattingMangler("dials", caseconversion.DecodeGoTags, caseconversion.EncodeUpperSnakeCase),
			&transform.StringCastingMangler{}}, "alias+flatten+reformat+string-cast"
	case 6:
		return []transform.Mangler{durSub()}, "duration-substitution"
	case 7:
		return []transform.Mangler{&transform.SetSliceMangler{}, durSub()}, "set-slice+duration-substitution"
	case 8:
		return []transform.Mangler{tagformat.NewTagReformattingMangler("dials", caseconversion.DecodeGoTags, caseconversion.EncodeKebabCase)}, "reformat-only"
	}
	return nil, "none"
}

func chainChangesTypes(id int) bool { return id != 0 && id != 8 }

// C20Case: a transforming source around a static / watching / failing inner
// source, compared with an unwrapped Dials fed the same data natively.
type C20Case struct {
	Chain    int      `json:"chain"`
	Inner    string   `json:"inner"` // static | watching | value-error | watch-error
	Initial  WLayer   `json:"initial"`
	Updates  []WLayer `json:"updates,omitempty"`
	Blocking []bool   `json:"blocking,omitempty"`
	ErrAt    int      `json:"err_at"`           // before which update the inner source reports an error (-1 never)
	ByPtr    bool     `json:"by_ptr,omitempty"` // the inner source hands out POINTERS to values of the type it was given (as sourcewrap.Blank does)
	// BadAtP1 k>0: before update k-1 the inner watcher reports a value whose
	// number text cannot be converted back (chains with string casting only);
	// BadBlocking says through which call
	BadAtP1     int  `json:"bad_at_p1,omitempty"`
	BadBlocking bool `json:"bad_blocking,omitempty"`
}

func chainCastsStrings(id int) bool { return id == 2 || id == 4 || id == 5 }

func genWLayer(t *rapid.T, n int) WLayer {
	l := WLayer{}
	// one value in four is the explicit ZERO value of its type: a source that
	// sets a leaf to zero must still override the (non-zero) lower layer
	zero := func(label string) bool { return rapid.IntRange(0, 3).Draw(t, label+"_zero") == 0 }
	if rapid.Bool().Draw(t, "num") {
		v := 100 + n
		if zero("num") {
			v = 0
		}
		l.Num = &v
	}
	if rapid.Bool().Draw(t, "name") {
		s := fmt.Sprintf("name%d", n)
		if zero("name") {
			s = ""
		}
		l.Name = &s
	}
	if rapid.Bool().Draw(t, "dur") {
		d := int64(time.Duration(n+1) * 90 * time.Second)
		if zero("dur") {
			d = 0
		}
		l.DurNS = &d
	}
	if rapid.Bool().Draw(t, "set") {
		l.HasSet = true
		l.Set = []string{fmt.Sprintf("s%d", n)}
		if rapid.Bool().Draw(t, "set2") {
			l.Set = append(l.Set, "common")
		}
	}
	if rapid.Bool().Draw(t, "list") {
		l.HasList = true
		l.List = []string{fmt.Sprintf("l%d", n), "x"}
	}
	if rapid.Bool().Draw(t, "subdepth") {
		v := 10 + n
		if zero("subdepth") {
			v = 0
		}
		l.SubDepth = &v
	}
	if rapid.Bool().Draw(t, "subtag") {
		s := fmt.Sprintf("t%d", n)
		l.SubTag = &s
	}
	return l
}

func makeInvalid(l *WLayer) {
	v := -13
	l.Num = &v
}

func genC20(t *rapid.T) C20Case {
	c := C20Case{Chain: rapid.IntRange(0, 8).Draw(t, "chain"), ErrAt: -1}
	c.Inner = rapid.SampledFrom([]string{"static", "watching", "watching", "watching", "value-error", "watch-error"}).Draw(t, "inner")
	c.Initial = genWLayer(t, 0)
	c.ByPtr = rapid.IntRange(0, 3).Draw(t, "by_ptr") == 0
	if c.Inner == "watching" {
		n := rapid.IntRange(0, 8).Draw(t, "updates")
		for i := 0; i < n; i++ {
			u := genWLayer(t, i+1)
			if rapid.IntRange(0, 3).Draw(t, "invalid") == 0 {
				makeInvalid(&u)
			}
			c.Updates = append(c.Updates, u)
			c.Blocking = append(c.Blocking, rapid.Bool().Draw(t, "blocking"))
		}
		if n > 0 && rapid.IntRange(0, 2).Draw(t, "has_err") == 0 {
			c.ErrAt = rapid.IntRange(0, n-1).Draw(t, "err_at")
		}
		if n > 0 && chainCastsStrings(c.Chain) && rapid.IntRange(0, 1).Draw(t, "has_bad") == 0 {
			c.BadAtP1 = rapid.IntRange(1, n).Draw(t, "bad_at")
			c.BadBlocking = rapid.Bool().Draw(t, "bad_blocking")
		}
	}
	return c
}

var errInner = errors.New("inner source failed")

// translatingInner is the wrapped source: it produces values of whatever
// (translated) type it is asked for.
type translatingInner struct {
	byPtr    bool
	l        WLayer
	valueErr error
	watchErr error
	watching bool
	typ      *dials.Type
	args     dials.WatchArgs
}

func (s *translatingInner) Value(_ context.Context, t *dials.Type) (reflect.Value, error) {
	if s.valueErr != nil {
		return reflect.Value{}, s.valueErr
	}
	v := reflect.New(t.Type()).Elem()
	if err := fillTranslated(v, "", s.l); err != nil {
		return reflect.Value{}, err
	}
	if s.byPtr {
		return v.Addr(), nil
	}
	return v, nil
}

type translatingWatcher struct{ translatingInner }

func (s *translatingWatcher) Watch(_ context.Context, t *dials.Type, args dials.WatchArgs) error {
	s.typ, s.args = t, args
	return s.watchErr
}

func wNative(pt reflect.Type, l WLayer) reflect.Value {
	v := reflect.New(pt).Elem()
	if err := fillTranslated(v, "", l); err != nil {
		panic(err)
	}
	return v
}

func runC20(c C20Case) (verdict vrt.Verdict) {
	chain, chainName := manglerChain(c.Chain)
	labels := []string{"chain=" + chainName, "inner=" + c.Inner, fmt.Sprintf("updates=%d", len(c.Updates)), fmt.Sprintf("by_ptr=%v", c.ByPtr)}
	var msg string
	fail := func(format string, a ...any) {
		if msg == "" {
			msg = fmt.Sprintf(format, a...)
		}
	}
	defer func() {
		if p := recover(); p != nil {
			verdict = vrt.KeyedViolationf("panic", "panic / synctest failure: %v", p)
		}
	}()
	synctest.Test(curT, func(st *testing.T) {
		ctx, cancel := context.WithCancel(context.Background())
		defer func() {
			cancel()
			synctest.Wait()
		}()
		var mu sync.Mutex
		var watchedErrs []error
		params := dials.Params[WCfg]{OnWatchedError: func(_ context.Context, err error, _, _ *WCfg) {
			if errors.Is(err, ErrInvalid) {
				return // verification failures are not source errors
			}
			mu.Lock()
			watchedErrs = append(watchedErrs, err)
			mu.Unlock()
		}}
		mkDefaults := func() *WCfg { return wStack(nil) }

		var inner dials.Source
		var tw *translatingWatcher
		switch c.Inner {
		case "static":
			inner = &translatingInner{l: c.Initial, byPtr: c.ByPtr}
		case "value-error":
			inner = &translatingInner{l: c.Initial, valueErr: errInner}
		case "watching":
			tw = &translatingWatcher{translatingInner{l: c.Initial, byPtr: c.ByPtr}}
			inner = tw
		case "watch-error":
			tw = &translatingWatcher{translatingInner{l: c.Initial, watchErr: errInner}}
			inner = tw
		default:
			fail("unknown inner kind")
			return
		}
		wrapped := sourcewrap.NewTransformingSource(inner, chain...)
		if _, isW := wrapped.(dials.Watcher); isW != (tw != nil) {
			fail("wrapping changed whether the source is a Watcher (inner watcher=%v, wrapped watcher=%v)", tw != nil, isW)
			return
		}
		dw, err := params.Config(ctx, mkDefaults(), wrapped)
		if c.Inner == "value-error" || c.Inner == "watch-error" {
			if err == nil || !errors.Is(err, errInner) {
				fail("Config over a wrapped source whose %s fails returned %v, want the inner error", c.Inner, err)
			}
			return
		}
		if err != nil {
			fail("Config over the wrapped source failed: %v", err)
			return
		}
		// the reference: an unwrapped Dials fed natively
		plain := &fake.Watcher{Mk: func(t *dials.Type) reflect.Value { return wNative(t.Type(), c.Initial) }}
		dp, err := dials.Config(ctx, mkDefaults(), plain)
		if err != nil {
			fail("reference Config failed: %v", err)
			return
		}
		compare := func(step string, layers []WLayer) bool {
			want := wStack(layers)
			a, b := dw.View(), dp.View()
			if df := shape.Diff(reflect.ValueOf(b).Elem(), reflect.ValueOf(a).Elem()); df != "" {
				fail("%s: the view behind the wrapper differs from the unwrapped reference at %s (reference vs wrapped)", step, df)
				return false
			}
			if df := shape.Diff(reflect.ValueOf(want).Elem(), reflect.ValueOf(a).Elem()); df != "" {
				fail("%s: the view behind the wrapper differs from the model at %s (want vs got)", step, df)
				return false
			}
			return true
		}
		if !compare("initial stack", []WLayer{c.Initial}) {
			return
		}
		if tw == nil {
			return
		}
		if tw.args == nil || tw.typ == nil {
			fail("the wrapped watcher's Watch was not called")
			return
		}
		lastGood := []WLayer{c.Initial}
		for i, u := range c.Updates {
			if c.BadAtP1 == i+1 && chainCastsStrings(c.Chain) {
				// a value whose text for the number cannot be cast back to an int
				n := 424242
				bad := WLayer{Num: &n}
				bv := reflect.New(tw.typ.Type()).Elem()
				if err := fillTranslated(bv, "", bad); err != nil {
					fail("harness: %v", err)
					return
				}
				replaced := false
				for fi := 0; fi < bv.NumField(); fi++ {
					f := bv.Field(fi)
					if f.Kind() == reflect.Pointer && !f.IsNil() && f.Elem().Kind() == reflect.String && f.Elem().String() == "424242" {
						s := "forty-two"
						f.Set(reflect.ValueOf(&s))
						replaced = true
					}
				}
				if replaced {
					var be error
					if c.BadBlocking {
						be = tw.args.BlockingReportNewValue(ctx, bv)
					} else {
						be = tw.args.ReportNewValue(ctx, bv)
					}
					synctest.Wait()
					if be == nil {
						fail("before update %d: the wrapped watcher reported (blocking=%v) a value that cannot be converted back (\"forty-two\" for an int) and was told nil: the translation error of a later update must be handed back, not swallowed", i, c.BadBlocking)
						return
					}
					labels = append(labels, "untranslatable-update")
					if !compare(fmt.Sprintf("after the untranslatable update before update %d", i), lastGood) {
						return
					}
				}
			}
			if i == c.ErrAt {
				// every other case the source's problem is one of ITS OWN requests
				// having been abandoned: an error that wraps context.Canceled or
				// DeadlineExceeded while the watcher and Dials are alive is an
				// error like any other and has to arrive
				repErr := errInner
				switch (i + len(c.Updates)) % 4 {
				case 1:
					repErr = fmt.Errorf("refresh abandoned: %w (%w)", errInner, context.Canceled)
				case 3:
					repErr = fmt.Errorf("refresh timed out: %w (%w)", errInner, context.DeadlineExceeded)
				}
				if err := tw.args.ReportError(ctx, repErr); err != nil {
					fail("ReportError through the wrapper failed: %v", err)
					return
				}
				synctest.Wait()
				mu.Lock()
				n := len(watchedErrs)
				var last error
				if n > 0 {
					last = watchedErrs[n-1]
				}
				mu.Unlock()
				if n != 1 || !errors.Is(last, errInner) {
					fail("an error reported by the wrapped watcher reached OnWatchedError %d times (last %v), want once with the inner error", n, last)
					return
				}
				labels = append(labels, "inner-error-report")
			}
			tv := reflect.New(tw.typ.Type()).Elem()
			if err := fillTranslated(tv, "", u); err != nil {
				fail("harness: %v", err)
				return
			}
			nv := wNative(plain.Type.Type(), u)
			if c.ByPtr {
				tv = tv.Addr()
			}
			var e1, e2 error
			if c.Blocking[i] {
				e1 = tw.args.BlockingReportNewValue(ctx, tv)
				e2 = plain.Args.BlockingReportNewValue(ctx, nv)
			} else {
				e1 = tw.args.ReportNewValue(ctx, tv)
				e2 = plain.Args.ReportNewValue(ctx, nv)
			}
			invalid := u.Num != nil && *u.Num == -13
			if c.Blocking[i] && !invalid && e1 == nil {
				// read-your-write: a blocking report that returned nil has been stacked
				if got := dw.View(); !reflect.DeepEqual(got, wStack([]WLayer{u})) {
					fail("update %d: BlockingReportNewValue through the wrapper returned nil but the view does not yet hold the value (the wrapper lost the blocking contract)", i)
					return
				}
			}
			synctest.Wait()
			if (e1 == nil) != (e2 == nil) {
				fail("update %d (blocking=%v): report through the wrapper returned %v but the unwrapped reference returned %v: errors must be propagated, not swallowed", i, c.Blocking[i], e1, e2)
				return
			}
			if invalid {
				if c.Blocking[i] && !errors.Is(e1, ErrInvalid) {
					fail("update %d: blocking report of an invalid value through the wrapper returned %v, want the verifier's error", i, e1)
					return
				}
				labels = append(labels, "invalid-update")
				if !compare(fmt.Sprintf("after rejected update %d", i), lastGood) {
					return
				}
				continue
			}
			if e1 != nil || e2 != nil {
				fail("update %d: report through the wrapper returned %v (reference: %v)", i, e1, e2)
				return
			}
			lastGood = []WLayer{u}
			if !compare(fmt.Sprintf("after update %d (blocking=%v)", i, c.Blocking[i]), []WLayer{u}) {
				return
			}
		}
		mu.Lock()
		n := len(watchedErrs)
		mu.Unlock()
		want := 0
		if c.ErrAt >= 0 {
			want = 1
		}
		if n != want {
			fail("OnWatchedError was called %d times, want %d", n, want)
		}
	})
	if msg != "" {
		return vrt.KeyedViolationf("wrapper", "%s", msg)
	}
	nt := c.Inner == "watching" && chainChangesTypes(c.Chain) && len(c.Updates) >= 2
	return vrt.OK(nt, labels...)
}

func TestC20Transforming(t *testing.T) {
	curT = t
	vrt.Check(t, vrt.Prop[C20Case]{
		ID: "C20", Name: "transforming",
		Rule: "a transforming source with one of 9 mangler lists (none, tag-only, set->slice, string cast, flatten, flatten+cast, the env-style chain, duration substitution, combinations) around a static, watching (0..8 updates, blocking or not, optional error report, optionally one update whose number text cannot be cast back - it must be answered with an error and leave the view alone) or failing inner source that produces values of whatever translated type it is handed (fields located by dials tag path); " +
			"oracle: differential against an unwrapped Dials fed the same data natively, plus a pure model - views agree after the initial stack and after every update, Value/Watch errors fail Config with the inner error, reported errors reach OnWatchedError exactly once; " +
			"non-trivial = a watching inner source behind a type-changing mangler list with >=2 updates; distinct = distinct case JSON",
		Assumptions: []string{"the inner source honours the contract: it returns values of the type it was given"},
		Gen:         genC20, Run: runC20,
	})
}

// ---------------------------------------------------------------- Blank

type BlankOp struct {
	K     string `json:"k"`              // set | done | inner-report | other-report
	Kind  string `json:"kind,omitempty"` // set: static | watching | value-error | watch-error | nil
	L     WLayer `json:"l"`
	Valid bool   `json:"-"`
	// set/watching: the inner watcher reports this value from a goroutine it
	// starts in Watch, and Watch itself takes a (virtual) second to return
	Eager *WLayer `json:"eager,omitempty"`
}

// mutSource is a non-watching inner source whose data can change between two
// SetSource calls with the SAME object (how a caller refreshes such a source).
type mutSource struct {
	l   WLayer
	err error
}

func (m *mutSource) Value(_ context.Context, t *dials.Type) (reflect.Value, error) {
	if m.err != nil {
		return reflect.Value{}, m.err
	}
	return wNative(t.Type(), m.l), nil
}

// eagerWatcher is a watching inner source whose background goroutine reports
// an update as soon as Watch has started it, while Watch itself is slow to
// return (a file watcher that fires immediately).  Natively that update comes
// after the initial value; behind a Blank it must as well.
type eagerWatcher struct {
	*fake.Watcher
	eager WLayer
}

func (w *eagerWatcher) Watch(ctx context.Context, t *dials.Type, args dials.WatchArgs) error {
	if err := w.Watcher.Watch(ctx, t, args); err != nil {
		return err
	}
	go func() { _ = args.ReportNewValue(ctx, wNative(t.Type(), w.eager)) }()
	time.Sleep(time.Second)
	return nil
}

type C20BlankCase struct {
	OtherWatcher bool      `json:"other_watcher"`
	Ops          []BlankOp `json:"ops"`
}

func genC20Blank(t *rapid.T) C20BlankCase {
	c := C20BlankCase{OtherWatcher: rapid.Bool().Draw(t, "other")}
	n := rapid.IntRange(1, 8).Draw(t, "ops")
	for i := 0; i < n; i++ {
		switch rapid.IntRange(0, 9).Draw(t, "op") {
		case 0, 1, 2, 3, 4:
			op := BlankOp{K: "set", Kind: rapid.SampledFrom([]string{"static", "static", "watching", "value-error", "watch-error", "nil", "watcher-value-error", "refresh", "refresh", "refresh-error"}).Draw(t, "kind"), L: genWLayer(t, i+1)}
			if op.Kind == "watching" && rapid.Bool().Draw(t, "eager") {
				e := genWLayer(t, 100+i)
				op.Eager = &e
			}
			c.Ops = append(c.Ops, op)
		case 5, 6:
			c.Ops = append(c.Ops, BlankOp{K: "done"})
		case 7, 8:
			c.Ops = append(c.Ops, BlankOp{K: "inner-report", L: genWLayer(t, i+1)})
		default:
			c.Ops = append(c.Ops, BlankOp{K: "other-report", L: genWLayer(t, i+1)})
		}
	}
	return c
}

func runC20Blank(c C20BlankCase) (verdict vrt.Verdict) {
	labels := map[string]bool{}
	var msg string
	fail := func(format string, a ...any) {
		if msg == "" {
			msg = fmt.Sprintf(format, a...)
		}
	}
	defer func() {
		if p := recover(); p != nil {
			verdict = vrt.KeyedViolationf("panic", "panic / synctest failure: %v", p)
		}
	}()
	synctest.Test(curT, func(st *testing.T) {
		ctx, cancel := context.WithCancel(context.Background())
		var exited bool
		var hmu sync.Mutex
		hook := func(p string) {
			if p == "mon.exit" {
				hmu.Lock()
				exited = true
				hmu.Unlock()
			}
		}
		dials.VerifSched.Store(&hook)
		defer dials.VerifSched.Store(nil)
		defer func() {
			cancel()
			synctest.Wait()
		}()
		blank := &sourcewrap.Blank{}
		other := &fake.Watcher{}
		srcs := []dials.Source{blank}
		if c.OtherWatcher {
			srcs = []dials.Source{other, blank}
		}
		d, err := dials.Config(ctx, wStack(nil), srcs...)
		if err != nil {
			fail("Config failed: %v", err)
			return
		}
		typ := func() *dials.Type {
			if c.OtherWatcher {
				return other.Type
			}
			return nil
		}
		_ = typ
		// model
		var otherL, blankL WLayer
		var lastMut *mutSource         // the object of the most recently set non-watching inner source
		var innerStatic *WLayer        // most recently set non-watching inner
		var innerWatcher *fake.Watcher // once set, owns the slot
		blankDone, otherDone := false, false
		monAlive := true
		check := func(step string) bool {
			want := wStack([]WLayer{otherL, blankL})
			if df := shape.Diff(reflect.ValueOf(want).Elem(), reflect.ValueOf(d.View()).Elem()); df != "" {
				fail("%s: view differs from the model at %s (want vs got)", step, df)
				return false
			}
			hmu.Lock()
			ex := exited
			hmu.Unlock()
			if ex == monAlive {
				fail("%s: monitor exited=%v, the model says alive=%v (Done must be forwarded only while Blank owns the watch slot)", step, ex, monAlive)
				return false
			}
			return true
		}
		for i, op := range c.Ops {
			step := fmt.Sprintf("op %d (%s %s)", i, op.K, op.Kind)
			switch op.K {
			case "set":
				var s dials.Source
				l := op.L
				var nw *fake.Watcher
				switch op.Kind {
				case "static":
					lastMut = &mutSource{l: l}
					s = lastMut
				case "refresh", "refresh-error":
					// the very same source object again, with new data (or now failing)
					if lastMut == nil || innerWatcher != nil || !monAlive {
						continue
					}
					if op.Kind == "refresh" {
						lastMut.l, lastMut.err = l, nil
					} else {
						lastMut.err = errInner
					}
					s = lastMut
				case "watching":
					nw = &fake.Watcher{Mk: func(t *dials.Type) reflect.Value { return wNative(t.Type(), l) }}
					s = nw
					if op.Eager != nil {
						s = &eagerWatcher{Watcher: nw, eager: *op.Eager}
					}
				case "value-error":
					s = &fake.Static{Err: errInner}
				case "watcher-value-error":
					// a watching source whose Value fails: nothing is installed
					s = &fake.Watcher{Err: errInner}
				case "watch-error":
					nw = &fake.Watcher{Mk: func(t *dials.Type) reflect.Value { return wNative(t.Type(), l) }, WatchErr: errInner}
					s = nw
				case "nil":
					s = nil
				}
				if !monAlive && op.Kind != "nil" && op.Kind != "value-error" && op.Kind != "watcher-value-error" && innerWatcher == nil {
					// SetSource after the monitor is gone would block until its context ends
					sctx, scancel := context.WithTimeout(ctx, time.Hour)
					err := blank.SetSource(sctx, s)
					scancel()
					if err == nil {
						fail("%s: SetSource after shutdown returned nil", step)
						return
					}
					labels["set-after-shutdown"] = true
					// the inner source was swapped before the report was attempted
					if nw == nil {
						innerStatic = &l
					} else {
						innerWatcher = nw
					}
					continue
				}
				// SetSource gets a context of its own that ends right after the call
				sctx, scancel := context.WithCancel(ctx)
				err := blank.SetSource(sctx, s)
				scancel()
				synctest.Wait()
				switch {
				case op.Kind == "nil":
					if err == nil {
						fail("%s: SetSource(nil) returned nil", step)
						return
					}
				case innerWatcher != nil:
					if err == nil {
						fail("%s: SetSource replaced a watching inner source", step)
						return
					}
					labels["refused-to-replace-watcher"] = true
				case op.Kind == "refresh-error":
					if err == nil || !errors.Is(err, errInner) {
						fail("%s: SetSource with the same source object, whose Value now fails, returned %v, want the inner error (the source must be asked again)", step, err)
						return
					}
					lastMut.err = nil
					labels["same-source-reset"] = true
				case op.Kind == "value-error" || op.Kind == "watcher-value-error":
					if err == nil || !errors.Is(err, errInner) {
						fail("%s: SetSource with a failing Value returned %v, want the inner error", step, err)
						return
					}
				case op.Kind == "watch-error":
					if err == nil || !errors.Is(err, errInner) {
						fail("%s: SetSource with a failing Watch returned %v, want the inner error", step, err)
						return
					}
					blankL = l
					innerWatcher = nw
				default:
					if err != nil {
						fail("%s: SetSource failed: %v", step, err)
						return
					}
					blankL = l
					if nw != nil {
						innerWatcher = nw
						if nw.Args == nil {
							fail("%s: the inner watcher's Watch was not called", step)
							return
						}
						labels["watcher-installed"] = true
						if op.Eager != nil {
							// reported after Watch started, i.e. after the initial value
							blankL = *op.Eager
							labels["watcher-reports-at-once"] = true
						}
					} else {
						innerStatic = &l
						labels["static-installed"] = true
						if op.Kind == "refresh" {
							labels["same-source-reset"] = true
						}
					}
				}
			case "done":
				if monAlive {
					blank.Done(ctx)
				} else {
					// nothing receives any more: the call may block until its context ends
					dctx, dcancel := context.WithTimeout(ctx, time.Hour)
					blank.Done(dctx)
					dcancel()
					labels["done-after-shutdown"] = true
				}
				synctest.Wait()
				if innerWatcher == nil && !blankDone {
					blankDone = true
					labels["done-forwarded"] = true
				} else if innerWatcher != nil {
					labels["done-not-forwarded"] = true
				}
				if blankDone && (!c.OtherWatcher || otherDone) {
					monAlive = false
				}
			case "inner-report":
				if innerWatcher == nil || innerWatcher.Args == nil || !monAlive {
					continue
				}
				if innerWatcher.Ctx == nil || innerWatcher.Ctx.Err() != nil {
					// a watcher that honours its Watch context has stopped by now: its updates are lost
					fail("%s: the inner watcher was started with a context that is already over (it must get the context Dials gave the Blank's Watch, not the SetSource call's): later updates from it would never arrive", step)
					return
				}
				if err := innerWatcher.Args.BlockingReportNewValue(ctx, wNative(innerWatcher.Type.Type(), op.L)); err != nil {
					fail("%s: report from the inner watcher failed: %v", step, err)
					return
				}
				synctest.Wait()
				blankL = op.L
				labels["inner-watcher-report"] = true
			case "other-report":
				if !c.OtherWatcher || !monAlive {
					continue
				}
				if err := other.Args.BlockingReportNewValue(ctx, wNative(other.Type.Type(), op.L)); err != nil {
					fail("%s: report from the other watcher failed: %v", step, err)
					return
				}
				synctest.Wait()
				otherL = op.L
			}
			if !check(step) {
				return
			}
			// Blank.Value delegates to the most recently set non-watching inner source
			if innerWatcher == nil && innerStatic != nil && c.OtherWatcher {
				v, err := blank.Value(ctx, other.Type)
				if err != nil {
					fail("%s: Blank.Value failed: %v", step, err)
					return
				}
				want := wNative(other.Type.Type(), *innerStatic)
				if v.Kind() == reflect.Pointer {
					v = v.Elem()
				}
				if df := shape.Diff(want, v); df != "" {
					fail("%s: Blank.Value does not delegate to the most recently set inner source: differs at %s", step, df)
					return
				}
			}
		}
	})
	if msg != "" {
		return vrt.KeyedViolationf("blank", "%s", msg)
	}
	var ls []string
	for l := range labels {
		ls = append(ls, l)
	}
	sort.Strings(ls)
	return vrt.OK(labels["refused-to-replace-watcher"] || labels["done-forwarded"] || labels["done-not-forwarded"], ls...)
}

func TestC20Blank(t *testing.T) {
	curT = t
	vrt.Check(t, vrt.Prop[C20BlankCase]{
		ID: "C20", Name: "blank",
		Rule: "scripts of 1..8 operations on a sourcewrap.Blank inside a real Dials (optionally next to another watcher): SetSource(static | the same static source object again with new or now failing data | watching | failing Value (static or watching source) | failing Watch | nil), Done, reports from the inner watcher and from the other watcher; " +
			"a watching inner source may report an update from its own goroutine as soon as its (slow) Watch has started; " +
			"oracle: reference model of Blank - the view always stacks the latest value of each slot (an update reported right after Watch started comes after the initial value, as it would natively), SetSource propagates inner errors and refuses to replace a watching inner source, Blank.Value delegates to the most recently set non-watching inner source, Done ends the watch slot (monitor exits when it was the last) only while Blank still owns it; " +
			"non-trivial = a refused replacement or a Done call; distinct = distinct case JSON",
		Assumptions: []string{"Blank is used after Config, as documented"},
		Gen:         genC20Blank, Run: runC20Blank,
	})
}
