package psim

import (
	"context"
	"errors"
	"fmt"
	"os"
	"path/filepath"
	"reflect"
	"sync"
	"testing"
	"testing/synctest"

	"github.com/vimeo/dials"
	"github.com/vimeo/dials/ez"
	"pgregory.net/rapid"

	"verifharness/internal/fake"
	"verifharness/internal/vrt"
)

// EzVCfg is the config type of the ez-level C09 check (field names chosen so
// that no ordinary environment variable matches them).
type EzVCfg struct {
	VfcFile  string `dials:"vfc_file"`
	VfcCount int    `dials:"vfc_count"`
	VfcLimit int    `dials:"vfc_limit"`
}

func (c *EzVCfg) ConfigPath() (string, bool) { return c.VfcFile, c.VfcFile != "" }

var ezVerifyMu sync.Mutex
var ezVerifyLog []EzVCfg

func (c *EzVCfg) Verify() error {
	ezVerifyMu.Lock()
	ezVerifyLog = append(ezVerifyLog, *c)
	ezVerifyMu.Unlock()
	if c.VfcLimit < 0 {
		return ErrInvalid
	}
	return nil
}

type C09EzCase struct {
	HasFile      bool `json:"has_file"`
	DefaultLimit int  `json:"default_limit"` // negative: the defaults alone do not verify
	FileLimit    *int `json:"file_limit,omitempty"`
	FileCount    *int `json:"file_count,omitempty"`
	// WatchFlag: the flag layer is a WATCHING source (Params.FlagSource) that
	// keeps reporting after the entry point returned
	WatchFlag bool `json:"watch_flag,omitempty"`
}

func genC09Ez(t *rapid.T) C09EzCase {
	c := C09EzCase{HasFile: rapid.IntRange(0, 3).Draw(t, "has_file") != 0, DefaultLimit: rapid.SampledFrom([]int{5, 5, -1}).Draw(t, "default_limit")}
	if c.HasFile {
		if rapid.IntRange(0, 2).Draw(t, "file_limit") != 0 {
			v := rapid.SampledFrom([]int{7, 7, 9, -3}).Draw(t, "limit")
			c.FileLimit = &v
		}
		if rapid.Bool().Draw(t, "file_count") {
			v := rapid.IntRange(1, 99).Draw(t, "count")
			c.FileCount = &v
		}
	}
	c.WatchFlag = rapid.Bool().Draw(t, "watch_flag")
	return c
}

func runC09Ez(c C09EzCase) (verdict vrt.Verdict) {
	var msg string
	fail := func(format string, a ...any) {
		if msg == "" {
			msg = fmt.Sprintf(format, a...)
		}
	}
	defer func() {
		if p := recover(); p != nil {
			verdict = vrt.KeyedViolationf("panic", "panic / synctest failure: %v", p)
		}
	}()
	dir, err := os.MkdirTemp("", "c09ez-")
	if err != nil {
		return vrt.Discardf("no temp dir")
	}
	defer os.RemoveAll(dir)
	path := ""
	if c.HasFile {
		path = filepath.Join(dir, "conf.json")
		doc := "{"
		sep := ""
		if c.FileLimit != nil {
			doc += fmt.Sprintf(`%s"vfc_limit": %d`, sep, *c.FileLimit)
			sep = ", "
		}
		if c.FileCount != nil {
			doc += fmt.Sprintf(`%s"vfc_count": %d`, sep, *c.FileCount)
		}
		doc += "}"
		if err := os.WriteFile(path, []byte(doc), 0o644); err != nil {
			return vrt.Discardf("cannot write the file")
		}
	}
	wantLimit, wantCount := c.DefaultLimit, 1
	if c.FileLimit != nil {
		wantLimit = *c.FileLimit
	}
	if c.FileCount != nil {
		wantCount = *c.FileCount
	}
	synctest.Test(curT, func(st *testing.T) {
		ctx, cancel := context.WithCancel(context.Background())
		defer func() { cancel(); synctest.Wait() }()
		ezVerifyMu.Lock()
		ezVerifyLog = nil
		ezVerifyMu.Unlock()
		var mu sync.Mutex
		newCalls, errCalls := 0, 0
		var firstNew string
		var flagSrc dials.Source = &fake.Static{} // a flag layer that sets nothing (the real one registers process-global flags)
		flagW := &fake.Watcher{}
		if c.WatchFlag {
			flagSrc = flagW
		}
		params := ez.Params[EzVCfg]{
			FlagSource: flagSrc,
			OnNewConfig: func(_ context.Context, o, n *EzVCfg) {
				mu.Lock()
				newCalls++
				if firstNew == "" {
					firstNew = fmt.Sprintf("old=%+v new=%+v", *o, *n)
				}
				mu.Unlock()
			},
			OnWatchedError: func(context.Context, error, *EzVCfg, *EzVCfg) {
				mu.Lock()
				errCalls++
				mu.Unlock()
			},
		}
		d, err := ez.JSONConfigEnvFlag(ctx, &EzVCfg{VfcFile: path, VfcCount: 1, VfcLimit: c.DefaultLimit}, params)
		synctest.Wait()
		ezVerifyMu.Lock()
		vlog := append([]EzVCfg{}, ezVerifyLog...)
		ezVerifyMu.Unlock()
		// Verify never sees anything but the complete stack (file included)
		for i, v := range vlog {
			if v.VfcLimit != wantLimit || v.VfcCount != wantCount {
				fail("Verify call %d saw %+v, but the complete configuration (defaults + file) has limit=%d count=%d: verification ran before it was enabled", i, v, wantLimit, wantCount)
				return
			}
		}
		if wantLimit < 0 {
			if err == nil || !errors.Is(err, ErrInvalid) {
				fail("the complete configuration does not verify, but the ez entry point returned %v", err)
			}
			return
		}
		if err != nil {
			fail("the complete configuration verifies (limit=%d) but the ez entry point failed: %v", wantLimit, err)
			return
		}
		if len(vlog) == 0 {
			fail("the ez entry point returned without ever verifying the configuration")
			return
		}
		if v := d.View(); v.VfcLimit != wantLimit || v.VfcCount != wantCount {
			fail("view %+v, want limit=%d count=%d", *v, wantLimit, wantCount)
			return
		}
		mu.Lock()
		nc, ec, fn := newCalls, errCalls, firstNew
		mu.Unlock()
		if nc != 0 || ec != 0 {
			fail("the global callbacks were called during start-up (OnNewConfig %d, OnWatchedError %d; first: %s): they must be withheld while the delay is in force", nc, ec, fn)
			return
		}
		if !c.WatchFlag {
			return
		}
		// the entry point enabled verification: from now on every re-stack is verified and announced
		pt := flagW.Type.Type()
		mk := func(limit, count int) reflect.Value {
			v := reflect.New(pt).Elem()
			v.FieldByName("VfcLimit").Set(reflect.ValueOf(&limit))
			v.FieldByName("VfcCount").Set(reflect.ValueOf(&count))
			return v
		}
		before := d.View()
		if rerr := flagW.Args.BlockingReportNewValue(ctx, mk(-5, 70)); !errors.Is(rerr, ErrInvalid) {
			fail("after the ez entry point returned (file=%v), a watching flag source reported a value that does not verify and the blocking report returned %v, want the verifier's error: verification was not switched on", c.HasFile, rerr)
			return
		}
		synctest.Wait()
		if d.View() != before {
			fail("a re-stack that does not verify was installed after the ez entry point returned")
			return
		}
		mu.Lock()
		nc, ec = newCalls, errCalls
		mu.Unlock()
		if ec != 1 || nc != 0 {
			fail("after the ez entry point returned, a rejected re-stack reached OnWatchedError %d time(s) and OnNewConfig %d time(s), want 1 and 0: global callbacks are withheld only while the delay is in force", ec, nc)
			return
		}
		if rerr := flagW.Args.BlockingReportNewValue(ctx, mk(11, 71)); rerr != nil {
			fail("a valid re-stack after the ez entry point returned failed: %v", rerr)
			return
		}
		synctest.Wait()
		mu.Lock()
		nc = newCalls
		mu.Unlock()
		if v := d.View(); v.VfcLimit != 11 || v.VfcCount != 71 || nc != 1 {
			fail("a valid re-stack after the ez entry point returned: view %+v, OnNewConfig called %d time(s), want limit=11 count=71 and 1 call", *v, nc)
		}
	})
	if msg != "" {
		return vrt.KeyedViolationf("ez-delay", "%s", msg)
	}
	return vrt.OK(c.HasFile && (c.FileLimit != nil || c.DefaultLimit < 0), fmt.Sprintf("file=%v", c.HasFile), fmt.Sprintf("defaults-verify=%v", c.DefaultLimit >= 0), fmt.Sprintf("complete-verifies=%v", wantLimit >= 0), fmt.Sprintf("watching-flag-source=%v", c.WatchFlag))
}

func TestC09Ez(t *testing.T) {
	curT = t
	vrt.Check(t, vrt.Prop[C09EzCase]{
		ID: "C09", Name: "ez",
		Rule: "the ez JSON entry point (which always uses delayed verification with suppressed global callbacks) without file watching, over a config with a Verify method: with / without a config file, defaults that verify or not, a file that repairs, breaks or leaves the limit; inside a synctest bubble; " +
			"oracle: every Verify call sees the complete configuration (never the file-less intermediate one), the entry point fails iff the complete configuration does not verify, and no global callback runs during start-up; when the flag layer is a watching source, its later re-stacks are verified (a value that does not verify is rejected with the verifier's error and reaches OnWatchedError, a valid one is installed and announced); " +
			"non-trivial = a file that sets the verified field, or defaults that do not verify on their own; distinct = distinct case JSON",
		Assumptions: []string{"the flag layer is a source that sets nothing (the default one registers process-global flags once)", "no environment variable is named VFC_*"},
		Gen:         genC09Ez, Run: runC09Ez,
	})
}
