package psim

import (
	"context"
	"fmt"
	"runtime"
	"strings"
	"sync"
	"sync/atomic"
	"testing"

	"github.com/vimeo/dials"
	"github.com/vimeo/dials/ptrify"
	"pgregory.net/rapid"
	"reflect"

	"verifharness/internal/fake"
	"verifharness/internal/vrt"
)

// StressCase: real goroutines on real cores (no synctest bubble): readers spin
// on ViewVersion while one reporter installs versions as fast as it can.  The
// windows of a few instructions inside ViewVersion / between store and
// roll-back are only reachable this way.
type StressCase struct {
	Readers      int `json:"readers"`
	Installs     int `json:"installs"`
	InvalidEvery int `json:"invalid_every"` // every k-th report is invalid (0 = never)
}

func genStress(t *rapid.T) StressCase {
	return StressCase{
		Readers:      rapid.IntRange(2, 8).Draw(t, "readers"),
		Installs:     rapid.IntRange(200, 3000).Draw(t, "installs"),
		InvalidEvery: rapid.SampledFrom([]int{0, 2, 3, 5}).Draw(t, "invalid_every"),
	}
}

func runStress(c StressCase) *Violation {
	if c.Readers < 1 || c.Readers > 16 || c.Installs < 1 || c.Installs > 20000 {
		return &Violation{Tag: "malformed", Msg: "bad stress case"}
	}
	curRun.Store(nil)
	var stored sync.Map // *SimCfg -> serial
	var d *dials.Dials[SimCfg]
	var dready atomic.Bool
	var storeOrderBad atomic.Value
	var lastStored atomic.Uint64
	hook := func(p string) {
		if p == "mon.stored" && dready.Load() {
			cfg, tok := d.ViewVersion()
			s := serialOf(tok)
			stored.Store(cfg, s)
			if prev := lastStored.Swap(s); s != prev+1 {
				storeOrderBad.Store(fmt.Sprintf("version stored with serial %d after serial %d", s, prev))
			}
		}
	}
	dials.VerifSched.Store(&hook)
	defer dials.VerifSched.Store(nil)
	ctx, cancel := context.WithCancel(context.Background())
	defer cancel()
	defaults := SimDefaults{A: 0, Name: "default"}
	w := &fake.Watcher{}
	var err error
	d, err = dials.Config(ctx, defaults.Cfg(), w)
	if err != nil {
		return &Violation{Tag: "C04", Msg: "Config failed: " + err.Error()}
	}
	dready.Store(true)
	init := d.View()
	stored.Store(init, uint64(0))
	pt := ptrify.Pointerify(reflect.TypeOf(SimCfg{}), reflect.ValueOf(defaults.Cfg()).Elem())

	type pair struct {
		c *SimCfg
		s uint64
	}
	var stop atomic.Bool
	var wg sync.WaitGroup
	pairs := make([][]pair, c.Readers)
	var viol atomic.Value
	for ri := 0; ri < c.Readers; ri++ {
		wg.Add(1)
		go func(ri int) {
			defer wg.Done()
			var last pair
			for !stop.Load() {
				cfg, tok := d.ViewVersion()
				s := serialOf(tok)
				if cfg == last.c && s == last.s {
					continue
				}
				if s < last.s {
					viol.Store(Violation{Tag: "C05", Msg: fmt.Sprintf("reader %d saw the serial go backwards: %d after %d", ri, s, last.s)})
					return
				}
				if cfg.Limit < 0 {
					viol.Store(Violation{Tag: "C04", Msg: fmt.Sprintf("reader %d observed a config that fails Verify (Limit=%d, A=%d) through ViewVersion while verification is active", ri, cfg.Limit, cfg.A)})
					return
				}
				last = pair{cfg, s}
				if len(pairs[ri]) < 200000 {
					pairs[ri] = append(pairs[ri], last)
				}
				if ri%2 == 1 {
					runtime.Gosched()
				}
			}
		}(ri)
	}
	// an Events consumer on its own core: whatever Events delivers must already
	// be visible (stored, with its serial) through ViewVersion
	wg.Add(1)
	go func() {
		defer wg.Done()
		var lastSerial uint64
		for !stop.Load() {
			select {
			case cfg := <-d.Events():
				_, tok := d.ViewVersion()
				now := serialOf(tok)
				s, ok := stored.Load(cfg)
				if !ok {
					viol.Store(Violation{Tag: "C05", Msg: fmt.Sprintf("Events delivered a config (A=%d) before it was stored as a version: ViewVersion still shows serial %d", cfg.A, now)})
					return
				}
				if s.(uint64) > now {
					viol.Store(Violation{Tag: "C05", Msg: fmt.Sprintf("Events delivered version %d while ViewVersion still returns serial %d: a reader sees the version go backwards", s.(uint64), now)})
					return
				}
				if s.(uint64) <= lastSerial && lastSerial != 0 {
					viol.Store(Violation{Tag: "C05", Msg: fmt.Sprintf("Events delivered version %d after version %d", s.(uint64), lastSerial)})
					return
				}
				lastSerial = s.(uint64)
				if cfg.Limit < 0 {
					viol.Store(Violation{Tag: "C04", Msg: fmt.Sprintf("Events delivered a config that fails Verify (Limit=%d)", cfg.Limit)})
					return
				}
			default:
				runtime.Gosched()
			}
		}
	}()
	rejects := 0
	for i := 1; i <= c.Installs && viol.Load() == nil; i++ {
		a, lim := i, i
		if c.InvalidEvery > 0 && i%c.InvalidEvery == 0 {
			lim = -i
		}
		l := SimLayer{A: &a, Limit: &lim}
		err := w.Args.BlockingReportNewValue(ctx, l.Value(pt))
		if lim < 0 {
			rejects++
			if err == nil {
				viol.Store(Violation{Tag: "C04,C07", Msg: fmt.Sprintf("blocking report %d of an invalid value returned nil", i)})
			}
		} else if err != nil {
			viol.Store(Violation{Tag: "C07", Msg: fmt.Sprintf("blocking report %d of a valid value failed: %v", i, err)})
		}
	}
	stop.Store(true)
	wg.Wait()
	if v := viol.Load(); v != nil {
		vv := v.(Violation)
		return &vv
	}
	if s := storeOrderBad.Load(); s != nil {
		return &Violation{Tag: "C05", Msg: s.(string)}
	}
	for ri, ps := range pairs {
		for _, p := range ps {
			want, ok := stored.Load(p.c)
			if !ok {
				return &Violation{Tag: "C05", Msg: fmt.Sprintf("reader %d saw a config (A=%d) that was never stored as a version", ri, p.c.A)}
			}
			if want.(uint64) != p.s {
				// C06 too: a callback registered with that serial is told "newer than what you saw" relative to a version the registrant never saw
				return &Violation{Tag: "C05,C06", Msg: fmt.Sprintf("reader %d: ViewVersion returned the config stored as version %d together with serial %d: config and serial do not belong together", ri, want.(uint64), p.s)}
			}
		}
	}
	if got, want := lastStored.Load(), uint64(c.Installs-rejects); got != want {
		return &Violation{Tag: "C05", Msg: fmt.Sprintf("%d versions were installed, want %d", got, want)}
	}
	return nil
}

func stressVerdict(c StressCase, tags ...string) vrt.Verdict {
	v := runStress(c)
	labels := []string{fmt.Sprintf("readers=%d", c.Readers), fmt.Sprintf("invalid_every=%d", c.InvalidEvery)}
	if v != nil {
		if v.Tag == "malformed" {
			return vrt.Discardf("%s", v.Msg)
		}
		for _, tg := range tags {
			if strings.Contains(v.Tag, tg) {
				return vrt.KeyedViolationf(v.Tag, "%s", v.Msg)
			}
		}
		return vrt.OK(false, append(labels, "stopped-by-other-property:"+v.Tag)...)
	}
	return vrt.OK(c.Readers >= 2 && c.Installs >= 200, labels...)
}

const stressRule = "real-concurrency stress (no synctest bubble): 2..8 reader goroutines spin on ViewVersion on real cores while one reporter installs 200..3000 versions back to back (every k-th one invalid); the schedule point at the store records which serial each config was stored with; "

func TestC05Stress(t *testing.T) {
	vrt.Check(t, vrt.Prop[StressCase]{
		ID: "C05", Name: "stress", NoJournal: true,
		Rule:        stressRule + "oracle: every (config, serial) pair a reader obtained from one ViewVersion call is a pair that was stored together, no reader sees its serial decrease, stored serials are consecutive, the number of installed versions equals the number of valid reports; non-trivial = >=2 readers and >=200 installs; distinct = distinct case JSON",
		Assumptions: []string{"which interleavings occur is up to the Go scheduler and the machine; a violated invariant is a real violation whether or not it reproduces"},
		Gen:         genStress,
		Run:         func(c StressCase) vrt.Verdict { return stressVerdict(c, "C05") },
	})
}

func TestC04Stress(t *testing.T) {
	vrt.Check(t, vrt.Prop[StressCase]{
		ID: "C04", Name: "stress", NoJournal: true,
		Rule:        stressRule + "oracle: with verification active no reader ever observes a config that fails Verify (negative Limit), however briefly, and a blocking report of an invalid value returns an error; non-trivial = >=2 readers and >=200 installs; distinct = distinct case JSON",
		Assumptions: []string{"which interleavings occur is up to the Go scheduler and the machine; a violated invariant is a real violation whether or not it reproduces"},
		Gen:         genStress,
		Run:         func(c StressCase) vrt.Verdict { return stressVerdict(c, "C04") },
	})
}

func TestC06Stress(t *testing.T) {
	vrt.Check(t, vrt.Prop[StressCase]{
		ID: "C06", Name: "stress", NoJournal: true,
		Rule:        stressRule + "oracle (what C06's ViewVersion+RegisterCallback pairs rest on): every (config, serial) pair obtained from one ViewVersion call was stored together - a registration with a serial that belongs to another version than the config the registrant saw shifts the skip and catch-up rules by one; non-trivial = >=2 readers and >=200 installs; distinct = distinct case JSON",
		Assumptions: []string{"which interleavings occur is up to the Go scheduler and the machine; a violated invariant is a real violation whether or not it reproduces"},
		Gen:         genStress,
		Run:         func(c StressCase) vrt.Verdict { return stressVerdict(c, "C06") },
	})
}
