package psim

import (
	"context"
	"errors"
	"fmt"
	"reflect"
	"testing/synctest"
	"time"

	"github.com/vimeo/dials"

	"verifharness/internal/shape"
)

var errSource = errors.New("simulated source failure")
var errCallerGaveUp = errors.New("the caller gave up (custom cancellation cause)")

const lateTimeout = time.Hour

func (r *run) snapshotLoops() int {
	r.mu.Lock()
	defer r.mu.Unlock()
	return r.loops
}

func (r *run) isHeld() bool {
	r.mu.Lock()
	defer r.mu.Unlock()
	return r.heldNow
}

func (r *run) isExited() bool {
	r.mu.Lock()
	defer r.mu.Unlock()
	return r.exited
}

func (r *run) newCfg(val *SimCfg, what string) int {
	r.cfgs = append(r.cfgs, &mcfg{val: val, what: what})
	return len(r.cfgs) - 1
}

func (r *run) ptrOf(id int) *SimCfg {
	if id < 0 {
		return nil
	}
	return r.cfgs[id].ptr
}

// ---- callback-goroutine model ----

func (r *run) enqueue(e mEvent) {
	if !r.cbAlive && !r.monAlive {
		return
	}
	r.queue = append(r.queue, e)
	if len(r.queue) > 55 {
		r.res.Malformed = "scenario would overflow the callback queue"
	}
	r.pump()
}

func (r *run) emit(c mCall) {
	r.expect = append(r.expect, c)
	if len(c.who) > 0 && c.who[0] == 'h' {
		var h int
		fmt.Sscanf(c.who, "h%d", &h)
		if r.handles[h].slow {
			r.cbBlocked = true
		}
	}
}

// pump lets the modelled callback goroutine run until it blocks in a slow
// callback or its queue is empty.
func (r *run) pump() {
	for !r.cbBlocked {
		if len(r.pending) > 0 {
			c := r.pending[0]
			r.pending = r.pending[1:]
			r.emit(c)
			continue
		}
		if r.pendingAdd >= 0 {
			r.handles[r.pendingAdd].active = true
			r.order = append(r.order, r.pendingAdd)
			r.pendingAdd = -1
		}
		if len(r.queue) == 0 {
			return
		}
		e := r.queue[0]
		r.queue = r.queue[1:]
		switch e.kind {
		case "err":
			if r.sc.GlobalCBs {
				r.pending = append(r.pending, mCall{who: "onerr", old: e.old, new: e.new, errKind: e.errKind})
			}
		case "new":
			r.lastSerial, r.lastVer = e.serial, e.new
			if r.sc.GlobalCBs && !e.suppressed {
				r.pending = append(r.pending, mCall{who: "onnew", old: e.old, new: e.new})
			}
			for _, h := range r.order {
				if r.handles[h].minSerial >= e.serial {
					continue // registered with this version or a later one
				}
				r.pending = append(r.pending, mCall{who: fmt.Sprintf("h%d", h), old: e.old, new: e.new})
			}
		case "reg":
			if e.regHasCfg && e.regSerial < r.lastSerial {
				r.pending = append(r.pending, mCall{who: fmt.Sprintf("h%d", e.h), old: e.regCfg, new: r.lastVer})
				r.label("catch-up-call")
			}
			r.pendingAdd = e.h
		case "unreg":
			for i, h := range r.order {
				if h == e.h {
					r.order = append(append([]int{}, r.order[:i]...), r.order[i+1:]...)
					break
				}
			}
			r.handles[e.h].active = false
			r.unregDone[e.h] = true
		}
	}
}

func (r *run) compareCBs() {
	r.mu.Lock()
	log := append([]cbRec{}, r.cbLog...)
	r.mu.Unlock()
	tagFor := func(who, errKind string, err error) string {
		switch {
		case who == "onerr":
			if errKind == "source" || (err != nil && errors.Is(err, errSource)) {
				return "C09"
			}
			// C09 too: global callbacks are delivered in every state but "delay in force and suppress set"
			return "C04,C09"
		case who == "onnew":
			return "C06,C09"
		}
		return "C06"
	}
	n := len(log)
	if len(r.expect) < n {
		n = len(r.expect)
	}
	for i := r.checked; i < n; i++ {
		a, e := log[i], r.expect[i]
		if a.who != e.who {
			r.viol(tagFor(e.who, e.errKind, a.err)+unverifiedTag(a), "callback #%d: %s was called, the model expects %s (old=%s new=%s)", i, a.who, e.who, r.what(e.old), r.what(e.new))
			return
		}
		if a.old != r.ptrOf(e.old) || a.new != r.ptrOf(e.new) {
			tg := tagFor(e.who, e.errKind, a.err)
			if e.who != "onerr" && (r.isRejected(a.new) || r.isRejected(a.old)) {
				tg += ",C04" // a config that never passed Verify reached a new-config callback
			}
			r.viol(tg, "callback #%d (%s): called with old=%s new=%s, the model expects old=%s new=%s", i, a.who, r.whatPtr(a.old), r.whatPtr(a.new), r.what(e.old), r.what(e.new))
			return
		}
		if e.who == "onerr" {
			switch e.errKind {
			case "invalid":
				if !errors.Is(a.err, ErrInvalid) {
					r.viol("C04", "OnWatchedError got %v, want the verifier's error", a.err)
					return
				}
			case "source":
				if !errors.Is(a.err, errSource) {
					r.viol("C09", "OnWatchedError got %v, want the source's error", a.err)
					return
				}
			}
		}
		if i > 0 && log[i-1].exit == 0 {
			r.viol("C06", "callback #%d (%s) entered before callback #%d (%s) returned", i, a.who, i-1, log[i-1].who)
			return
		}
		if i > 0 && a.enter < log[i-1].exit {
			r.viol("C06", "callback #%d overlaps callback #%d", i, i-1)
			return
		}
	}
	r.checked = n
	if len(log) > len(r.expect) {
		a := log[len(r.expect)]
		r.viol(tagFor(a.who, "", a.err)+unverifiedTag(a), "unexpected callback #%d: %s(old=%s, new=%s, err=%v); the model expects no further call at this point", len(r.expect), a.who, r.whatPtr(a.old), r.whatPtr(a.new), a.err)
		return
	}
	if len(log) < len(r.expect) {
		e := r.expect[len(log)]
		r.viol(tagFor(e.who, e.errKind, nil), "missing callback #%d: the model expects %s(old=%s, new=%s %s) but nothing was called", len(log), e.who, r.what(e.old), r.what(e.new), e.errKind)
		return
	}
	r.res.Calls = len(log)
}

// unverifiedTag adds C04 when a new-config callback that the model does not
// expect was handed a config that cannot have passed Verify.
func unverifiedTag(a cbRec) string {
	if a.who != "onerr" && a.new != nil && a.new.Limit < 0 {
		return ",C04"
	}
	return ""
}

func (r *run) isRejected(p *SimCfg) bool {
	if p == nil {
		return false
	}
	for _, c := range r.cfgs {
		if c.ptr == p {
			return c.what == "rejected"
		}
	}
	return false
}

func (r *run) what(id int) string {
	if id < 0 {
		return "nil"
	}
	return fmt.Sprintf("cfg#%d(%s)", id, r.cfgs[id].what)
}

func (r *run) whatPtr(p *SimCfg) string {
	if p == nil {
		return "nil"
	}
	for i, c := range r.cfgs {
		if c.ptr == p {
			return r.what(i)
		}
	}
	return fmt.Sprintf("unknown config %p %+v", p, *p)
}

// ---- monitor model: processing of one reported value, in two phases around a hold point ----

type reportProc struct {
	op       *Op
	st       *SimCfg
	valid    bool
	verified bool
	rejected int
	old      int
	stage    int
	blockErr string // "", "invalid"
}

// advance runs the model's micro-steps up to (and excluding) the first one at
// or after `until` ("verify" < "stored" < "reply" < "end").
func (r *run) checkVerifyEntry(p *reportProc) bool {
	r.mu.Lock()
	vl := append([]verifyRec{}, r.verifyLog...)
	r.mu.Unlock()
	if len(vl) != r.verifSeen+1 {
		tag := "C04"
		if r.sc.Delay {
			tag = "C09"
		}
		extra := ""
		if !p.valid && r.d != nil && r.cur >= 0 && r.d.View() != r.cfgs[r.cur].ptr {
			// C05: "... or the last view that verified, if that stack does not"
			tag += ",C05"
			extra = "; the stack does not verify, yet the view moved away from the last version that verified"
			if p.op != nil && p.op.Block {
				// C07: a blocking report of it must return the verifier's error and leave the view alone
				tag += ",C07"
			}
		}
		r.viol(tag, "a re-stack with verification active called Verify %d times, want exactly 1%s", len(vl)-r.verifSeen, extra)
		return false
	}
	e := vl[r.verifSeen]
	r.verifSeen++
	if df := shape.Diff(reflect.ValueOf(p.st).Elem(), reflect.ValueOf(e.ptr).Elem()); df != "" {
		r.viol("C05", "the config handed to Verify differs from the reference stack at %s (want vs got)", df)
		return false
	}
	if e.viewAt == e.ptr {
		r.viol("C04", "the candidate config was already visible through View while Verify was still running")
		return false
	}
	if (e.err == nil) != p.valid {
		r.viol("C04", "harness inconsistency: Verify verdict %v vs model valid=%v", e.err, p.valid)
		return false
	}
	if !p.valid {
		p.rejected = r.newCfg(p.st, "rejected")
		r.cfgs[p.rejected].ptr = e.ptr
	} else {
		p.verified = true
		r.cfgs = append(r.cfgs, &mcfg{val: p.st, ptr: e.ptr, what: "candidate"})
	}
	return true
}

func (r *run) noVerifyExpected() bool {
	r.mu.Lock()
	n := len(r.verifyLog)
	r.mu.Unlock()
	if n != r.verifSeen {
		r.mu.Lock()
		rejected := false
		for _, e := range r.verifyLog[r.verifSeen:] {
			rejected = rejected || e.err != nil
		}
		r.mu.Unlock()
		tag := "C09"
		if rejected {
			// C05 too: during the delay nothing is verified, so the view must follow the latest values
			tag = "C09,C05"
		}
		r.viol(tag, "Verify was called %d time(s) while delayed verification is in force (rejecting=%v)", n-r.verifSeen, rejected)
		return false
	}
	return true
}

func (r *run) installChecks(p *reportProc) bool {
	r.mu.Lock()
	sl := append([]storeRec{}, r.storeLog...)
	r.mu.Unlock()
	if len(sl) != r.storeSeen+1 {
		r.viol("C04", "a valid update was stored %d times, want 1", len(sl)-r.storeSeen)
		return false
	}
	s := sl[r.storeSeen]
	r.storeSeen++
	var id int
	if p.verified {
		id = len(r.cfgs) - 1
		if r.cfgs[id].ptr != s.ptr {
			r.viol("C04", "the stored config is not the one that was verified")
			return false
		}
	} else {
		id = r.newCfg(p.st, "")
		r.cfgs[id].ptr = s.ptr
		if df := shape.Diff(reflect.ValueOf(p.st).Elem(), reflect.ValueOf(s.ptr).Elem()); df != "" {
			r.viol("C05", "the installed config differs from the reference stack at %s (want vs got)", df)
			return false
		}
	}
	r.serial++
	r.cfgs[id].serial = r.serial
	r.cfgs[id].what = fmt.Sprintf("serial %d", r.serial)
	if s.serial != r.serial {
		r.viol("C05", "installed version has serial %d, want %d (predecessor + 1)", s.serial, r.serial)
		return false
	}
	p.old = r.cur
	r.cur = id
	r.res.Installs++
	if r.res.WindowRegs > 0 {
		r.res.LaterInst++
	}
	return true
}

func (r *run) noStoreExpected() bool {
	r.mu.Lock()
	n := len(r.storeLog)
	r.mu.Unlock()
	if n != r.storeSeen {
		r.viol("C04", "a rejected update was stored (%d store(s))", n-r.storeSeen)
		return false
	}
	return true
}

// reached reports whether a hold point lies on the path this report takes.
func holdReached(hold string, skipVerify, valid, block bool) bool {
	switch hold {
	case "verify":
		return !skipVerify
	case "stored":
		return skipVerify || valid
	case "reply":
		return block
	}
	return false
}

func (r *run) stepReport(op *Op) {
	if op.Src < 0 || op.Src >= r.sc.NWatch || op.L == nil {
		r.res.Malformed = "bad report op"
		return
	}
	if !r.monAlive {
		r.res.Malformed = "report after shutdown must be a late op"
		return
	}
	w := r.ws[op.Src]
	// every report hands the monitor a pointer to a value object the watcher keeps
	if r.lastPtr == nil {
		r.lastPtr, r.lastL = map[int]reflect.Value{}, map[int]SimLayer{}
	}
	var val reflect.Value
	if prev, ok := r.lastPtr[op.Src]; ok && op.SamePtr && reflect.DeepEqual(r.lastL[op.Src], *op.L) {
		val = prev
		r.label("same-value-object-re-reported")
	} else {
		val = reflect.New(r.pt)
		val.Elem().Set(op.L.Value(r.pt))
		r.lastPtr[op.Src], r.lastL[op.Src] = val, *op.L
	}
	newSlots := append([]SimLayer{}, r.slots...)
	newSlots[r.sc.NStatic+op.Src] = *op.L
	st := Stack(r.sc.Defaults, newSlots)
	p := &reportProc{op: op, st: st, valid: st.Limit >= 0, rejected: -1}
	hold := op.Hold
	if hold != "" && (op.Ctx == "pre" || !holdReached(hold, r.skipVerify, p.valid, op.Block)) {
		hold = ""
	}
	loops0 := r.snapshotLoops()

	// the caller's context carries a cause of its own: what a report returns
	// when that context ends must still be a context error (errors.Is Canceled)
	ctx, cancelCause := context.WithCancelCause(r.liveCtx)
	cancel := func() { cancelCause(errCallerGaveUp) }
	defer cancel()
	if op.Ctx == "pre" {
		cancel()
	}
	var holdCh chan struct{}
	if hold != "" {
		holdCh = make(chan struct{})
		r.mu.Lock()
		r.holdPoint, r.holdCh = hold, holdCh
		r.mu.Unlock()
	}
	ar := &asyncRes{}
	call := func() {
		var err error
		pan := r.safely(func() {
			if op.Block {
				err = w.Args.BlockingReportNewValue(ctx, val)
			} else {
				err = w.Args.ReportNewValue(ctx, val)
			}
		})
		r.mu.Lock()
		ar.err, ar.pan, ar.done = err, pan, true
		r.mu.Unlock()
	}
	if op.Block {
		go call()
	} else {
		call()
	}
	synctest.Wait()
	getRes := func() (bool, error, string) {
		r.mu.Lock()
		defer r.mu.Unlock()
		return ar.done, ar.err, ar.pan
	}

	processed := true
	if op.Ctx == "pre" {
		processed = r.snapshotLoops() > loops0
		done, err, pan := getRes()
		if pan != "" {
			r.viol("C08", "report with a cancelled context panicked: %s", pan)
			return
		}
		if !done {
			r.viol("C07", "a report with an already cancelled context did not return")
			return
		}
		if !processed {
			if err == nil || !errors.Is(err, context.Canceled) {
				r.viol("C07", "a report that was never submitted returned %v, want a context error", err)
				return
			}
			r.label("pre-cancelled:not-submitted")
			if !r.noVerifyLeft() || !r.noStoreExpected() {
				return
			}
			return
		}
		r.label("pre-cancelled:submitted")
		if err != nil && !errors.Is(err, context.Canceled) && !(op.Block && !p.valid && !r.skipVerify && errors.Is(err, ErrInvalid)) {
			r.viol("C07", "a report with a cancelled context returned %v, want nil, a context error or the verifier's error", err)
			return
		}
	}

	// ---- phase 1: up to the hold point
	r.slots = newSlots
	cancelledCaller := false
	runDuring := func() {
		if hold == "" {
			return
		}
		if !r.isHeld() {
			r.res.Malformed = "hold point " + hold + " was not reached"
			return
		}
		r.label("hold:" + hold)
		for i := range op.During {
			d := &op.During[i]
			if d.K == "cancelcaller" {
				if op.Block {
					cancel()
					synctest.Wait()
					done, err, _ := getRes()
					if !done {
						r.viol("C07", "a blocking report whose context was cancelled while the monitor was busy did not return")
						return
					}
					if err == nil || !errors.Is(err, context.Canceled) {
						r.viol("C07", "a blocking report whose context was cancelled before the monitor answered returned %v, want a context error", err)
						return
					}
					cancelledCaller = true
					r.label("caller-cancelled-in-window:" + hold)
				}
				continue
			}
			r.step(d, true)
			if r.res.Viol != nil || r.res.Malformed != "" {
				return
			}
		}
		close(holdCh)
		synctest.Wait()
	}
	bail := func() bool { return r.res.Viol != nil || r.res.Malformed != "" }

	if !r.skipVerify {
		if !r.checkVerifyEntry(p) {
			return
		}
		if hold == "verify" {
			runDuring()
			if bail() {
				return
			}
		}
	} else if !r.noVerifyExpected() {
		return
	}
	if !r.skipVerify && !p.valid {
		// rejected
		r.res.Rejects++
		if !r.noStoreExpected() {
			return
		}
		r.enqueue(mEvent{kind: "err", old: r.cur, new: p.rejected, errKind: "invalid"})
		if hold == "reply" {
			runDuring()
			if bail() {
				return
			}
		}
		p.blockErr = "invalid"
	} else {
		if hold == "stored" {
			// the monitor is parked right after the store: the model installs
			// now, the event is queued after the release
			if !r.installChecks(p) {
				return
			}
			runDuring()
			if bail() {
				return
			}
			r.evPush(r.cur, true)
		} else {
			if hold == "reply" {
				// parked before the reply: store and Events send already happened
				if !r.installChecks(p) {
					return
				}
				r.evPush(r.cur, false)
				runDuring()
				if bail() {
					return
				}
			} else {
				if !r.installChecks(p) {
					return
				}
				r.evPush(r.cur, false)
			}
		}
		r.enqueue(mEvent{kind: "new", old: p.old, new: r.cur, serial: r.serial, suppressed: r.skipVerify && r.sc.Suppress})
	}
	if bail() {
		return
	}
	// ---- after the monitor finished
	if r.isHeld() {
		r.viol("C08", "monitor still parked after release")
		return
	}
	if got := r.snapshotLoops(); got != loops0+1 {
		tag := "C08"
		if cancelledCaller {
			tag = "C07,C08"
		}
		r.viol(tag, "after handling a report the monitor did not return to its loop (loop count %d, want %d): it is blocked, e.g. on answering a caller that went away", got, loops0+1)
		return
	}
	done, err, pan := getRes()
	if pan != "" {
		r.viol("C08", "report panicked: %s", pan)
		return
	}
	if !done {
		tag := "C07"
		if p.blockErr == "invalid" {
			tag = "C04,C07"
		}
		r.viol(tag, "report did not return although the monitor finished handling it")
		return
	}
	if op.Ctx != "pre" && !cancelledCaller {
		switch {
		case !op.Block:
			if err != nil {
				r.viol("C07", "ReportNewValue returned %v", err)
				return
			}
		case p.blockErr == "invalid":
			if err == nil || !errors.Is(err, ErrInvalid) {
				r.viol("C04,C07", "a blocking report of a value whose stack does not verify returned %v, want the verifier's error", err)
				return
			}
			r.label("blocking-report-rejected")
		default:
			if err != nil {
				r.viol("C07", "a blocking report of a valid value returned %v", err)
				return
			}
		}
	}
	// the view right after the report returned; after a rejected update a
	// changed view (pointer OR contents) is a violation of "rejected updates
	// change nothing" as well
	if p.blockErr == "invalid" {
		r.contentTag = "C04,C05,C07" // C07: "returns that error and the view is unchanged"
	}
	r.checkView("C07", op.Block && err == nil)
	r.contentTag = ""
	r.compareCBs()
	r.recordToken()
}

func (r *run) noVerifyLeft() bool {
	r.mu.Lock()
	n := len(r.verifyLog)
	r.mu.Unlock()
	if n != r.verifSeen {
		r.viol("C04", "Verify was called for a report that was never submitted")
		return false
	}
	return true
}

// evPush models the capacity-1, drop-when-full Events channel.
func (r *run) evPush(id int, deferred bool) {
	if !r.evPending {
		r.evPending, r.evVal = true, id
	}
}

// checkView compares View/ViewVersion with the model's current config.
func (r *run) checkView(tag string, strict bool) {
	cfg, tok := r.d.ViewVersion()
	want := r.cfgs[r.cur]
	if cfg != want.ptr {
		t := "C05"
		if strict {
			t = tag
		}
		r.viol(t, "View returns %s, the model's current config is %s", r.whatPtr(cfg), r.what(r.cur))
		return
	}
	if serialOf(tok) != r.serial {
		r.viol("C05", "ViewVersion serial is %d, want %d", serialOf(tok), r.serial)
		return
	}
	if v2 := r.d.View(); v2 != cfg {
		r.viol("C05", "View and ViewVersion disagree")
		return
	}
	if df := shape.Diff(reflect.ValueOf(want.val).Elem(), reflect.ValueOf(cfg).Elem()); df != "" {
		tag := "C05"
		if r.contentTag != "" {
			tag = r.contentTag
		}
		r.viol(tag, "the current view differs from the reference stack of each source's latest value (or the last version that verified) at %s (want vs got)", df)
	}
}

type tokenRec struct {
	tok dials.CfgSerial[SimCfg]
	cfg int
}

// recordToken remembers the CfgSerial of the current version so that a later
// registration can present a stale one.
func (r *run) recordToken() {
	_, tok := r.d.ViewVersion()
	if r.tokens == nil {
		r.tokens = map[uint64]tokenRec{}
	}
	if serialOf(tok) == r.serial {
		r.tokens[r.serial] = tokenRec{tok: tok, cfg: r.cur}
	}
}

func (r *run) step(op *Op, during bool) {
	if during {
		switch op.K {
		case "view", "register", "unregister", "events":
		default:
			r.res.Malformed = "op " + op.K + " not allowed while the monitor is parked"
			return
		}
	}
	switch op.K {
	case "report":
		r.stepReport(op)
	case "view":
		r.checkView("C05", false)
	case "events":
		r.stepEvents()
	case "reporterr":
		r.stepReportErr(op)
	case "done":
		r.stepDone(op)
	case "register":
		r.stepRegister(op)
	case "unregister":
		r.stepUnregister(op)
	case "releasecb":
		r.stepReleaseCB()
	case "enable":
		r.stepEnable()
	case "cancel":
		r.stepCancel()
	case "late":
		r.stepLate(op)
	default:
		r.res.Malformed = "unknown op " + op.K
	}
}

func (r *run) stepEvents() {
	select {
	case c := <-r.d.Events():
		if !r.evPending {
			r.viol("C05", "Events delivered %s although the model expects the channel to be empty", r.whatPtr(c))
			return
		}
		if c != r.ptrOf(r.evVal) {
			r.viol("C05", "Events delivered %s, the model expects %s", r.whatPtr(c), r.what(r.evVal))
			return
		}
		r.evPending = false
		r.label("events-read")
	default:
		if r.evPending {
			r.viol("C05", "Events is empty although version %s was installed since the last read", r.what(r.evVal))
		}
	}
}

func (r *run) stepReportErr(op *Op) {
	if op.Src < 0 || op.Src >= r.sc.NWatch || !r.monAlive {
		r.res.Malformed = "bad reporterr op"
		return
	}
	loops0 := r.snapshotLoops()
	var err error
	// the error a watcher reports is its own business: plain, or wrapping a
	// context error of one of ITS requests (a poller with a per-request
	// deadline); it never says anything about the watcher being finished
	r.errReports++
	repErr := errSource
	switch r.errReports % 3 {
	case 1:
		repErr = fmt.Errorf("poll failed: %w: %w", errSource, context.DeadlineExceeded)
	case 2:
		repErr = fmt.Errorf("request aborted: %w: %w", errSource, context.Canceled)
	}
	if pan := r.safely(func() { err = r.ws[op.Src].Args.ReportError(r.liveCtx, repErr) }); pan != "" {
		r.viol("C08", "ReportError panicked: %s", pan)
		return
	}
	synctest.Wait()
	if err != nil {
		r.viol("C08", "ReportError returned %v", err)
		return
	}
	if r.snapshotLoops() != loops0+1 {
		r.viol("C08", "the monitor did not return to its loop after a source error")
		return
	}
	if !(r.skipVerify && r.sc.Suppress) {
		r.enqueue(mEvent{kind: "err", old: r.cur, new: -1, errKind: "source"})
		r.label("source-error-delivered")
	} else {
		r.label("source-error-suppressed")
	}
	state := "verifying"
	if r.skipVerify {
		state = "delayed"
	}
	r.label(fmt.Sprintf("source-error:%s:suppress=%v", state, r.sc.Suppress))
	r.compareCBs()
}

func (r *run) afterShutdown(why string) {
	r.monAlive = false
	synctest.Wait()
	if !r.isExited() {
		r.viol("C08", "the monitor goroutine did not exit after %s", why)
		return
	}
	// the callback goroutine drains its queue and exits (unless parked in a slow callback)
	if !r.cbBlocked {
		r.cbAlive = false
	}
	r.label("shutdown:" + why)
}

func (r *run) stepDone(op *Op) {
	if op.Src < 0 || op.Src >= r.sc.NWatch || !r.monAlive {
		r.res.Malformed = "bad done op"
		return
	}
	if pan := r.safely(func() { r.ws[op.Src].Args.Done(r.liveCtx) }); pan != "" {
		r.viol("C08", "Done panicked: %s", pan)
		return
	}
	synctest.Wait()
	r.watching[op.Src] = false
	any := false
	for _, w := range r.watching {
		any = any || w
	}
	if !any {
		r.afterShutdown("every watcher called Done")
	} else if r.isExited() {
		// C05 too: whatever the remaining watchers report from now on can never reach the view
		// ... nor be answered (C07)
		r.viol("C08,C05,C07", "the monitor exited although a source is still watching")
	}
	r.compareCBs()
}

func (r *run) stepCancel() {
	if !r.hasMon {
		r.cfgCancel()
		return
	}
	r.cfgCancel()
	if r.monAlive {
		r.afterShutdown("the Config context was cancelled")
	}
	r.compareCBs()
}

func (r *run) stepRegister(op *Op) {
	h := len(r.handles)
	mh := &mHandle{slow: op.Slow}
	r.handles = append(r.handles, mh)
	cfg, tok := r.d.ViewVersion()
	regSerial, hasCfg, regCfg := serialOf(tok), true, -1
	for i, c := range r.cfgs {
		if c.ptr == cfg {
			regCfg = i
		}
	}
	switch op.Ser {
	case "zero":
		tok = dials.CfgSerial[SimCfg]{}
		regSerial, hasCfg, regCfg = 0, false, -1
	case "stale":
		// a token obtained earlier, for an older installed version
		want := int64(regSerial) - int64(op.StaleBy)
		if want < 0 {
			want = 0
		}
		if t, ok := r.tokens[uint64(want)]; ok {
			tok, regSerial, regCfg = t.tok, uint64(want), t.cfg
			if uint64(want) < r.serial {
				r.label("register:really-stale")
			}
		}
	}
	mh.minSerial = regSerial
	cb := r.callback(fmt.Sprintf("h%d", h), op.Slow)
	var unreg dials.UnregisterCBFunc
	ctx := r.liveCtx
	var cancel context.CancelFunc
	late := !r.cbAlive || !r.monAlive
	t0 := time.Now()
	if late {
		ctx, cancel = context.WithTimeout(r.liveCtx, lateTimeout)
		defer cancel()
	}
	if pan := r.safely(func() {
		unreg = r.d.RegisterCallback(ctx, tok, func(ctx context.Context, o, n *SimCfg) { cb(ctx, o, n, nil) })
	}); pan != "" {
		r.viol("C08", "RegisterCallback panicked (monitor alive=%v): %s", r.monAlive, pan)
		return
	}
	synctest.Wait()
	mh.unreg = unreg
	if !r.hasMon {
		if unreg != nil {
			r.viol("C08", "RegisterCallback on a Dials without watchers returned a non-nil unregister function")
		}
		mh.nilFunc = true
		return
	}
	if late {
		if el := time.Since(t0); el > lateTimeout {
			r.viol("C08", "RegisterCallback after shutdown took %v, longer than its context", el)
			return
		}
		if unreg != nil && !r.monAlive {
			// the monitor has exited (synctest.Wait confirmed it): nothing will ever serve this registration
			r.viol("C08", "RegisterCallback after the monitor exited returned a non-nil unregister function: a later call must return a failure indication")
			return
		}
		if unreg != nil {
			r.label("late-register-accepted")
		} else {
			mh.nilFunc = true
		}
		r.label("late:register")
		r.compareCBs()
		return
	}
	if unreg == nil {
		r.viol("C06", "RegisterCallback returned nil although the callback goroutine is running and the queue has room")
		return
	}
	r.enqueue(mEvent{kind: "reg", h: h, regSerial: regSerial, regHasCfg: hasCfg, regCfg: regCfg})
	if r.isHeld() {
		r.res.WindowRegs++
		r.res.LaterInst = 0
		r.label("register-in-window")
	}
	r.label("register:" + op.Ser)
	r.compareCBs()
}

func (r *run) stepUnregister(op *Op) {
	if op.H < 0 || op.H >= len(r.handles) {
		r.label("unregister-skipped:no-such-handle")
		return
	}
	mh := r.handles[op.H]
	if mh.unreg == nil {
		return
	}
	if !r.cbAlive || !r.monAlive {
		// late unregister: must report failure (or success if it really was processed) by its deadline
		ctx, cancel := context.WithTimeout(r.liveCtx, lateTimeout)
		defer cancel()
		t0 := time.Now()
		var ok bool
		if pan := r.safely(func() { ok = mh.unreg(ctx) }); pan != "" {
			r.viol("C08", "unregister after shutdown panicked: %s", pan)
			return
		}
		if el := time.Since(t0); el > lateTimeout {
			r.viol("C08", "unregister after shutdown took %v, longer than its context", el)
			return
		}
		_ = ok
		r.label("late:unregister")
		return
	}
	again := r.unregDone[op.H]
	if again {
		r.label("unregister-twice")
	}
	if r.cbBlocked {
		// the callback goroutine is parked in a slow callback: the call blocks until it is released
		if _, dup := r.asyncs[op.H]; dup {
			return
		}
		ar := &asyncRes{}
		r.asyncs[op.H] = ar
		go func() {
			var ok bool
			pan := r.safely(func() { ok = mh.unreg(r.liveCtx) })
			r.mu.Lock()
			ar.ok, ar.pan, ar.done = ok, pan, true
			r.mu.Unlock()
		}()
		synctest.Wait()
		r.enqueue(mEvent{kind: "unreg", h: op.H})
		r.label("unregister-while-callback-blocked")
		return
	}
	var ok bool
	if pan := r.safely(func() { ok = mh.unreg(r.liveCtx) }); pan != "" {
		r.viol("C08", "unregister panicked: %s", pan)
		return
	}
	r.enqueue(mEvent{kind: "unreg", h: op.H})
	synctest.Wait()
	if !ok {
		r.viol("C06", "unregister returned false although the callback goroutine is running")
		return
	}
	r.label("unregister")
	r.compareCBs()
}

func (r *run) stepReleaseCB() {
	r.mu.Lock()
	ch, held := r.slowCh, r.slowHeld
	r.slowCh, r.slowHeld = nil, false
	r.mu.Unlock()
	if r.cbBlocked != held {
		r.viol("C06", "model and implementation disagree about a callback being in progress (model %v, actual %v)", r.cbBlocked, held)
		return
	}
	if !held {
		return
	}
	close(ch)
	r.cbBlocked = false
	r.pump()
	synctest.Wait()
	if !r.cbBlocked {
		for h, ar := range r.asyncs {
			r.mu.Lock()
			done, ok, pan := ar.done, ar.ok, ar.pan
			r.mu.Unlock()
			if pan != "" {
				r.viol("C08", "unregister panicked: %s", pan)
				return
			}
			if r.unregDone[h] && (!done || !ok) && r.cbAlive {
				r.viol("C06", "unregister of h%d did not return true after the callback goroutine processed it (done=%v ok=%v)", h, done, ok)
				return
			}
			if done {
				delete(r.asyncs, h)
			}
		}
		if !r.monAlive {
			r.cbAlive = false
		}
	}
	r.label("slow-callback-released")
	r.compareCBs()
}

func (r *run) stepEnable() {
	if r.hasMon && !r.monAlive {
		r.res.Malformed = "enable after shutdown must be a late op"
		return
	}
	var cfg *SimCfg
	var tok dials.CfgSerial[SimCfg]
	var err error
	if pan := r.safely(func() { cfg, tok, err = r.d.EnableVerification(r.liveCtx) }); pan != "" {
		r.viol("C08", "EnableVerification panicked: %s", pan)
		return
	}
	synctest.Wait()
	cur := r.cfgs[r.cur]
	_, viewTok := r.d.ViewVersion() // nothing is installed between the call and here
	r.mu.Lock()
	vl := append([]verifyRec{}, r.verifyLog...)
	r.mu.Unlock()
	newV := vl[r.verifSeen:]
	r.verifSeen = len(vl)
	if !r.sc.Delay || (!r.skipVerify && r.hasMon) {
		// no-op: verification was never delayed, or is already enabled
		// (without watchers there is no monitor to remember that it was
		// enabled: every call verifies the one and only config again)
		if len(newV) != 0 {
			r.viol("C09", "EnableVerification with verification already active called Verify %d times", len(newV))
			return
		}
		if err != nil || cfg != cur.ptr || serialOf(tok) != r.serial || tok != viewTok {
			r.viol("C09", "EnableVerification (verification already active) returned (%s, serial %d, %v), want the current config, serial %d, nil", r.whatPtr(cfg), serialOf(tok), err, r.serial)
			return
		}
		r.label("enable:noop")
		return
	}
	if len(newV) != 1 || newV[0].ptr != cur.ptr {
		etag := "C09"
		if err == nil && cur.val.Limit < 0 {
			// C04 too: verification is now "active" while the visible config never passed Verify
			etag = "C09,C04"
		}
		first := "-"
		if len(newV) > 0 {
			first = r.whatPtr(newV[0].ptr)
		}
		const enFmt = "EnableVerification must verify exactly the installed config once; Verify was called %d times (first on %s)"
		if len(newV) == 0 && err == nil && cfg == cur.ptr && r.deferViol(etag, enFmt, len(newV), first) {
			// the call claims success without having verified anything: for the
			// other properties' clauses go on with verification switched on, as claimed
			r.skipVerify = false
			r.label("enable:claimed-success-unverified")
			return
		}
		r.viol(etag, enFmt, len(newV), first)
		return
	}
	if cur.val.Limit < 0 {
		if err == nil || !errors.Is(err, ErrInvalid) {
			r.viol("C09", "EnableVerification on an invalid installed config returned %v, want the verifier's error", err)
			return
		}
		r.label("enable:failed")
		return // delay stays in force
	}
	if err != nil {
		r.viol("C09", "EnableVerification on a valid installed config failed: %v", err)
		return
	}
	if cfg != cur.ptr || serialOf(tok) != r.serial {
		r.viol("C09", "EnableVerification returned (%s, serial %d), want the installed config %s and its serial %d", r.whatPtr(cfg), serialOf(tok), r.what(r.cur), r.serial)
		return
	}
	if tok != viewTok {
		r.viol("C09", "EnableVerification returned a serial token that is not the one ViewVersion hands out for the same installed version (it would be useless for RegisterCallback)")
		return
	}
	r.skipVerify = false
	r.label("enable:succeeded")
	if !r.hasMon {
		r.label("enable:no-watchers")
	}
}

func (r *run) stepLate(op *Op) {
	if r.hasMon && r.monAlive {
		r.res.Malformed = "late op before shutdown"
		return
	}
	ctx, cancel := context.WithTimeout(r.liveCtx, lateTimeout)
	defer cancel()
	t0 := time.Now()
	elapsed := func() bool {
		if el := time.Since(t0); el > lateTimeout {
			r.viol("C08", "%s after shutdown took %v, longer than its context (%v)", op.Late, el, lateTimeout)
			return false
		}
		return true
	}
	src := 0
	if op.Src >= 0 && op.Src < r.sc.NWatch {
		src = op.Src
	}
	switch op.Late {
	case "register":
		r.stepRegister(&Op{K: "register", Ser: op.Ser})
	case "unregister":
		r.stepUnregister(op)
	case "enable":
		var err error
		if pan := r.safely(func() { _, _, err = r.d.EnableVerification(ctx) }); pan != "" {
			r.viol("C08", "EnableVerification after shutdown panicked: %s", pan)
			return
		}
		if !elapsed() {
			return
		}
		if r.sc.Delay && r.hasMon && err == nil {
			// C09 as well: a success must mean "verified exactly the installed config"; nothing verified here
			r.mu.Lock()
			nv := len(r.verifyLog) - r.verifSeen
			r.mu.Unlock()
			tag := "C08"
			if r.skipVerify {
				tag = "C08,C09"
			}
			r.viol(tag, "EnableVerification after shutdown reported success although nothing can answer it (delay still in force=%v, Verify called %d time(s) by this call, installed config valid=%v)", r.skipVerify, nv, r.cfgs[r.cur].val.Limit >= 0)
			return
		}
		r.mu.Lock()
		r.verifSeen = len(r.verifyLog)
		r.mu.Unlock()
		r.label("late:enable")
	case "report", "reportblock":
		if r.sc.NWatch == 0 {
			return
		}
		var err error
		l := SimLayer{}
		val := l.Value(r.pt)
		if pan := r.safely(func() {
			if op.Late == "report" {
				err = r.ws[src].Args.ReportNewValue(ctx, val)
			} else {
				err = r.ws[src].Args.BlockingReportNewValue(ctx, val)
			}
		}); pan != "" {
			r.viol("C08", "%s after shutdown panicked: %s", op.Late, pan)
			return
		}
		if !elapsed() {
			return
		}
		if err == nil {
			r.viol("C08", "%s after shutdown returned nil although nothing can handle the value", op.Late)
			return
		}
		r.label("late:" + op.Late)
	case "reporterr":
		if r.sc.NWatch == 0 {
			return
		}
		var err error
		if pan := r.safely(func() { err = r.ws[src].Args.ReportError(ctx, errSource) }); pan != "" {
			r.viol("C08", "ReportError after shutdown panicked: %s", pan)
			return
		}
		if !elapsed() {
			return
		}
		if err == nil {
			r.viol("C08", "ReportError after shutdown returned nil")
			return
		}
		r.label("late:reporterr")
	case "done":
		if r.sc.NWatch == 0 {
			return
		}
		if pan := r.safely(func() { r.ws[src].Args.Done(ctx) }); pan != "" {
			r.viol("C08", "Done after shutdown panicked: %s", pan)
			return
		}
		if !elapsed() {
			return
		}
		r.label("late:done")
	case "view":
		r.checkView("C05", false)
	default:
		r.res.Malformed = "unknown late op"
	}
	synctest.Wait()
	r.compareCBs()
}
