package psim

import (
	"context"
	"errors"
	"fmt"
	"reflect"
	"runtime/debug"
	"strings"
	"sync"
	"testing"
	"testing/synctest"
	"time"

	"github.com/vimeo/dials"
	"github.com/vimeo/dials/ptrify"

	"verifharness/internal/fake"
	"verifharness/internal/shape"
)

// Op is one step of a controlled scenario.
type Op struct {
	K       string    `json:"k"`                  // report reporterr done view register unregister enable cancel releasecb late cancelcaller
	Src     int       `json:"src,omitempty"`      // watcher index
	L       *SimLayer `json:"l,omitempty"`        // report: the value
	Block   bool      `json:"block,omitempty"`    // report: BlockingReportNewValue
	SamePtr bool      `json:"same_ptr,omitempty"` // report: the SAME value object (pointer) as this source's previous report
	Ctx     string    `json:"ctx,omitempty"`      // report: "" live | "pre" cancelled before the call
	Hold    string    `json:"hold,omitempty"`     // report: park the monitor at "verify" | "stored" | "reply" while During runs
	During  []Op      `json:"during,omitempty"`   // ops executed while the monitor is parked
	H       int       `json:"h,omitempty"`        // unregister: handle number (order of register ops)
	Ser     string    `json:"ser,omitempty"`      // register: fresh | stale | zero
	StaleBy int       `json:"stale_by,omitempty"` // register stale: how many versions back
	Slow    bool      `json:"slow,omitempty"`     // register: the callback blocks until a releasecb op
	Late    string    `json:"late,omitempty"`     // late: which API call to issue after shutdown
}

// Scenario is a complete controlled case.
type Scenario struct {
	Skip      bool `json:"skip,omitempty"`
	Delay     bool `json:"delay,omitempty"`
	Suppress  bool `json:"suppress,omitempty"`
	GlobalCBs bool `json:"global_cbs,omitempty"`
	NStatic   int  `json:"n_static,omitempty"`
	// NStaticAfter non-watching sources are placed AFTER the watching ones, so
	// they take precedence over every later watcher update
	NStaticAfter int         `json:"n_static_after,omitempty"`
	NWatch       int         `json:"n_watch"`
	Defaults     SimDefaults `json:"defaults"`
	Init         []SimLayer  `json:"init"`
	Ops          []Op        `json:"ops"`
}

// Violation found while running a scenario; Tag names the aspect (and so the
// property) it belongs to.
type Violation struct {
	Tag string
	Msg string
}

// Result of running a scenario.
type Result struct {
	Viol *Violation
	// Deferred: a violation of a property other than the one under test after
	// which the model could carry on; it becomes Viol if nothing else is found
	Deferred   *Violation
	Labels     map[string]bool
	Installs   int
	Rejects    int
	Calls      int
	ConfigErr  bool
	StepsDone  int
	Malformed  string
	WindowRegs int // registrations processed between a store and its event
	LaterInst  int // installs after the last window registration
}

type verifyRec struct {
	ptr    *SimCfg
	err    error
	viewAt *SimCfg
}

type storeRec struct {
	serial uint64
	ptr    *SimCfg
}

type cbRec struct {
	who      string // onnew | onerr | h<n>
	old, new *SimCfg
	err      error
	enter    int
	exit     int
}

// model-side config identity
type mcfg struct {
	val    *SimCfg
	serial uint64
	ptr    *SimCfg // bound actual pointer
	what   string
}

type mEvent struct {
	kind       string // new err reg unreg
	old, new   int    // cfg ids, -1 = nil
	serial     uint64
	suppressed bool
	errKind    string // invalid | source
	h          int
	regSerial  uint64
	regHasCfg  bool
	regCfg     int
}

type mCall struct {
	who      string
	old, new int
	errKind  string
}

type mHandle struct {
	minSerial uint64
	slow      bool
	active    bool
	unreg     dials.UnregisterCBFunc
	nilFunc   bool
}

type asyncRes struct {
	done bool
	err  error
	ok   bool
	pan  string
	t0   time.Time
	el   time.Duration
}

type run struct {
	free *freeRun // set when this is only an adapter for a free-running case
	sc   *Scenario
	res  *Result
	t    *testing.T

	d  *dials.Dials[SimCfg]
	ws []*fake.Watcher
	pt reflect.Type

	vmu       sync.Mutex
	tokens    map[uint64]tokenRec
	mu        sync.Mutex
	verifyLog []verifyRec
	storeLog  []storeRec
	cbLog     []cbRec
	seq       int
	inCB      int
	loops     int
	holdPoint string
	holdCh    chan struct{}
	heldNow   bool
	slowCh    chan struct{} // the currently blocked slow callback waits on this
	slowHeld  bool
	exited    bool // mon.exit seen

	cfgCtx    context.Context
	cfgCancel context.CancelFunc
	liveCtx   context.Context
	liveStop  context.CancelFunc

	// ---- model ----
	slots      []SimLayer
	cfgs       []*mcfg
	cur        int
	serial     uint64
	skipVerify bool
	watching   []bool
	monAlive   bool
	hasMon     bool
	queue      []mEvent
	pending    []mCall // calls of the event being processed by the callback goroutine
	pendingAdd int     // handle to add once pending drains (-1 none)
	pendingDel int
	cbBlocked  bool
	cbAlive    bool
	handles    []*mHandle
	order      []int // active handles in registration order
	lastSerial uint64
	lastVer    int
	expect     []mCall
	checked    int // cbLog entries already compared
	verifSeen  int // verifyLog entries already accounted
	storeSeen  int
	evPending  bool
	evVal      int
	contentTag string
	errReports int
	lastPtr    map[int]reflect.Value // per watcher: pointer to the value object it reported last
	lastL      map[int]SimLayer
	unregDone  map[int]bool
	asyncs     map[int]*asyncRes // pending unregisters by handle
}

func (r *run) viol(tag, format string, a ...any) {
	r.vmu.Lock()
	defer r.vmu.Unlock()
	if r.res.Viol == nil {
		r.res.Viol = &Violation{Tag: tag, Msg: fmt.Sprintf(format, a...)}
	}
}

func (r *run) label(l string) { r.res.Labels[l] = true }

// curProp is the property whose test is running (set by runTagged); "" = any.
var curProp string

// deferViol records a violation that does not bear on the property under test
// and lets the scenario go on (the caller brings the model in line with what
// the code claimed); it reports true when it did so.
func (r *run) deferViol(tag, format string, a ...any) bool {
	if curProp == "" || strings.Contains(tag, curProp) {
		return false
	}
	if r.res.Deferred == nil {
		r.res.Deferred = &Violation{Tag: tag, Msg: fmt.Sprintf(format, a...)}
	}
	r.label("went-on-after-other-property:" + tag)
	return true
}

func (r *run) onVerify(c *SimCfg, err error) {
	if r.free != nil {
		r.free.onVerifyFree(c, err)
		return
	}
	var view *SimCfg
	if r.d != nil {
		view = r.d.View()
	}
	r.mu.Lock()
	r.verifyLog = append(r.verifyLog, verifyRec{ptr: c, err: err, viewAt: view})
	r.mu.Unlock()
	r.maybeHold("verify")
}

func (r *run) maybeHold(point string) {
	r.mu.Lock()
	var ch chan struct{}
	if r.holdPoint == point && r.holdCh != nil {
		ch = r.holdCh
		r.holdCh = nil
		r.holdPoint = ""
		r.heldNow = true
	}
	r.mu.Unlock()
	if ch != nil {
		<-ch
		r.mu.Lock()
		r.heldNow = false
		r.mu.Unlock()
	}
}

func serialOf[T any](s dials.CfgSerial[T]) uint64 {
	return reflect.ValueOf(s).Field(0).Uint()
}

func (r *run) sched(point string) {
	switch point {
	case "mon.loop":
		r.mu.Lock()
		r.loops++
		r.mu.Unlock()
		return
	case "mon.exit":
		r.mu.Lock()
		r.exited = true
		r.mu.Unlock()
		return
	case "mon.stored":
		cfg, ser := r.d.ViewVersion()
		r.mu.Lock()
		r.storeLog = append(r.storeLog, storeRec{serial: serialOf(ser), ptr: cfg})
		r.mu.Unlock()
		r.maybeHold("stored")
	case "mon.reply":
		r.maybeHold("reply")
	}
}

func (r *run) callback(who string, slow bool) func(ctx context.Context, old, new *SimCfg, err error) {
	return func(ctx context.Context, old, new *SimCfg, err error) {
		r.mu.Lock()
		r.seq++
		idx := len(r.cbLog)
		r.cbLog = append(r.cbLog, cbRec{who: who, old: old, new: new, err: err, enter: r.seq})
		r.inCB++
		overlap := r.inCB > 1
		var ch chan struct{}
		if slow {
			ch = make(chan struct{})
			r.slowCh = ch
			r.slowHeld = true
		}
		r.mu.Unlock()
		if overlap {
			r.viol("C06", "two callbacks ran at the same time (%s entered while another was running)", who)
		}
		if ch != nil {
			<-ch
		}
		r.mu.Lock()
		r.seq++
		r.cbLog[idx].exit = r.seq
		r.inCB--
		r.mu.Unlock()
	}
}

// RunScenario executes sc inside a synctest bubble and checks it against the
// reference model.
// primeSameNamedCfgTypes runs, once per process and before the first scenario,
// a delayed Dials over function-local config types that print exactly like the
// simulator's (psim.SimCfg, psim.UCfg) but have NO Verify method, and enables
// verification on them: whatever the library learns about a config type must
// be keyed by the type, not by its printed name.
var primeCfgOnce sync.Once

func primeSameNamedCfgTypes(t *testing.T) {
	primeCfgOnce.Do(func() {
		type SimCfg struct{ A, Limit int }
		type UCfg struct{ N, Limit int }
		// inside a bubble of its own: when it returns, every goroutine of these
		// Dials has exited (their monitors must not report to the schedule hook
		// of a later scenario)
		synctest.Test(t, func(*testing.T) {
			ctx, cancel := context.WithCancel(context.Background())
			w1, w2 := &fake.Watcher{}, &fake.Watcher{}
			d1, err1 := dials.Params[SimCfg]{DelayInitialVerification: true}.Config(ctx, &SimCfg{A: 1}, w1)
			d2, err2 := dials.Params[UCfg]{DelayInitialVerification: true}.Config(ctx, &UCfg{N: 1}, w2)
			if err1 != nil || err2 != nil {
				panic(fmt.Sprintf("priming Config failed: %v %v", err1, err2))
			}
			if _, _, err := d1.EnableVerification(ctx); err != nil {
				panic(fmt.Sprintf("priming EnableVerification failed: %v", err))
			}
			if _, _, err := d2.EnableVerification(ctx); err != nil {
				panic(fmt.Sprintf("priming EnableVerification failed: %v", err))
			}
			cancel()
			synctest.Wait()
		})
	})
}

func RunScenario(t *testing.T, sc *Scenario) (res *Result) {
	primeSameNamedCfgTypes(t)
	res = &Result{Labels: map[string]bool{}}
	if msg := sc.validate(); msg != "" {
		res.Malformed = msg
		return res
	}
	func() {
		defer func() {
			if p := recover(); p != nil {
				msg := fmt.Sprint(p)
				st := string(debug.Stack())
				tag := "C08"
				switch {
				case strings.Contains(msg, "deadlock"):
					msg = "deadlock: every goroutine in the bubble is blocked: " + msg
				case strings.Contains(msg, "blocked goroutines remain"):
					msg = "goroutine leak after shutdown: " + msg
				default:
					msg = "panic: " + msg + "\n" + clip(st, 3000)
				}
				if res.Viol == nil {
					res.Viol = &Violation{Tag: tag, Msg: msg}
				}
			}
		}()
		synctest.Test(t, func(st *testing.T) {
			r := &run{sc: sc, res: res, t: st}
			r.main()
		})
	}()
	if res.Viol == nil && res.Deferred != nil {
		res.Viol = res.Deferred
	}
	return res
}

func clip(s string, n int) string {
	if len(s) > n {
		return s[:n] + "..."
	}
	return s
}

func (sc *Scenario) validate() string {
	if sc.NWatch < 0 || sc.NWatch > 3 || sc.NStatic < 0 || sc.NStatic > 2 {
		return "bad source counts"
	}
	if sc.NStaticAfter < 0 || sc.NStaticAfter > 2 {
		return "bad source counts"
	}
	if len(sc.Init) != sc.NStatic+sc.NWatch+sc.NStaticAfter {
		return "init layers do not match sources"
	}
	return ""
}

func (r *run) safely(f func()) (pan string) {
	defer func() {
		if p := recover(); p != nil {
			pan = fmt.Sprintf("%v\n%s", p, clip(string(debug.Stack()), 2500))
		}
	}()
	f()
	return ""
}

func (r *run) main() {
	sc := r.sc
	curRun.Store(r)
	defer curRun.Store(nil)
	hook := func(p string) { r.sched(p) }
	dials.VerifSched.Store(&hook)
	defer dials.VerifSched.Store(nil)

	r.cfgCtx, r.cfgCancel = context.WithCancel(context.Background())
	r.liveCtx, r.liveStop = context.WithCancel(context.Background())
	r.unregDone = map[int]bool{}
	r.asyncs = map[int]*asyncRes{}
	r.pendingAdd, r.pendingDel = -1, -1
	defer func() {
		// teardown: release every parked goroutine and shut down; anything
		// still blocked when the bubble's root returns is a leak.
		r.mu.Lock()
		if r.holdCh != nil {
			r.holdCh = nil
		}
		r.mu.Unlock()
		r.releaseSlowAll()
		r.liveStop()
		r.cfgCancel()
		synctest.Wait()
		r.releaseSlowAll()
		synctest.Wait()
	}()

	defaults := sc.Defaults.Cfg()
	r.pt = ptrify.Pointerify(reflect.TypeOf(SimCfg{}), reflect.ValueOf(defaults).Elem())
	var srcs []dials.Source
	for i := 0; i < sc.NStatic; i++ {
		srcs = append(srcs, &fake.Static{V: sc.Init[i].Value(r.pt)})
	}
	for i := 0; i < sc.NWatch; i++ {
		w := &fake.Watcher{V: sc.Init[sc.NStatic+i].Value(r.pt)}
		r.ws = append(r.ws, w)
		srcs = append(srcs, w)
	}
	for i := 0; i < sc.NStaticAfter; i++ {
		srcs = append(srcs, &fake.Static{V: sc.Init[sc.NStatic+sc.NWatch+i].Value(r.pt)})
	}
	p := dials.Params[SimCfg]{SkipInitialVerification: sc.Skip, DelayInitialVerification: sc.Delay, CallGlobalCallbacksAfterVerificationEnabled: sc.Suppress}
	if sc.GlobalCBs {
		onNew := r.callback("onnew", false)
		onErr := r.callback("onerr", false)
		p.OnNewConfig = func(ctx context.Context, o, n *SimCfg) { onNew(ctx, o, n, nil) }
		p.OnWatchedError = func(ctx context.Context, err error, o, n *SimCfg) { onErr(ctx, o, n, err) }
	}

	// ---- model: initial stack
	r.slots = append([]SimLayer{}, sc.Init...)
	init := Stack(sc.Defaults, r.slots)
	initValid := init.Limit >= 0
	wantVerify := !sc.Skip && !sc.Delay

	var d *dials.Dials[SimCfg]
	var err error
	if pan := r.safely(func() { d, err = p.Config(r.cfgCtx, defaults, srcs...) }); pan != "" {
		r.viol("C08", "Config panicked: %s", pan)
		return
	}
	synctest.Wait()
	if wantVerify {
		if len(r.verifyLog) != 1 {
			r.viol("C04", "Config with verification active called Verify %d times, want 1", len(r.verifyLog))
			return
		}
		if df := shape.Diff(reflect.ValueOf(init).Elem(), reflect.ValueOf(r.verifyLog[0].ptr).Elem()); df != "" {
			r.viol("C05", "initial stack differs from the model at %s", df)
			return
		}
	} else if len(r.verifyLog) != 0 {
		tag := "C04"
		if sc.Delay {
			tag = "C09"
		}
		r.viol(tag, "Config called Verify %d times although initial verification is skipped/delayed", len(r.verifyLog))
		return
	}
	r.verifSeen = len(r.verifyLog)
	if wantVerify && !initValid {
		r.res.ConfigErr = true
		if err == nil {
			r.viol("C04", "Config succeeded although the initial stack does not verify")
		} else if !errors.Is(err, ErrInvalid) {
			r.viol("C04", "Config failed with %v, want the verifier's error", err)
		}
		r.label("config-rejects-initial")
		return
	}
	if err != nil {
		r.viol("C04", "Config failed: %v", err)
		return
	}
	r.d = d
	v0, s0 := d.ViewVersion()
	if serialOf(s0) != 0 {
		r.viol("C05", "initial serial is %d, want 0", serialOf(s0))
		return
	}
	if df := shape.Diff(reflect.ValueOf(init).Elem(), reflect.ValueOf(v0).Elem()); df != "" {
		r.viol("C05", "initial view differs from the model at %s", df)
		return
	}
	// The caller reuses its defaults struct for something else: overwritten in
	// place, it must not show through in any later re-stack (the defaults are
	// what Config was given).
	defaults.A, defaults.B, defaults.Name, defaults.Limit = defaults.A+7000, -7001, "overwritten by the caller", 7002
	defaults.Sub.X, defaults.Sub.Y = 7003, "overwritten"
	for i := range defaults.List {
		defaults.List[i] += 7100
	}
	if defaults.M != nil {
		for k := range defaults.M {
			delete(defaults.M, k)
		}
		defaults.M["overwritten"] = 7004
	}
	if defaults.P != nil {
		*defaults.P = 7005
	}
	if defaults.PSub != nil {
		defaults.PSub.X = 7006
	}
	r.cfgs = append(r.cfgs, &mcfg{val: init, serial: 0, ptr: v0, what: "initial"})
	r.cur = 0
	r.recordToken()
	r.lastVer = -1
	r.skipVerify = sc.Delay
	r.watching = make([]bool, sc.NWatch)
	for i := range r.watching {
		r.watching[i] = true
	}
	r.hasMon = sc.NWatch > 0
	r.monAlive = r.hasMon
	r.cbAlive = r.hasMon

	for i := range sc.Ops {
		r.step(&sc.Ops[i], false)
		if r.res.Viol != nil || r.res.Malformed != "" {
			return
		}
		r.res.StepsDone++
	}
}

func (r *run) releaseSlowAll() {
	for i := 0; i < 200; i++ {
		r.mu.Lock()
		ch := r.slowCh
		held := r.slowHeld
		r.slowCh = nil
		r.slowHeld = false
		r.mu.Unlock()
		if !held || ch == nil {
			return
		}
		close(ch)
		synctest.Wait()
	}
}
